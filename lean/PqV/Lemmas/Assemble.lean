import PqV.Lemmas.Dremel
import PqV.Impl.Assemble
/-! Refinement of the code-shaped model of `_assemble_objects` / `read_col`'s page chaining
(`Impl.Assemble`) to record assembly, for pages that hold whole rows. -/
namespace PqV.Impl.Assemble
open PqV.Spec

def lv (es : List Entry) : List (Nat × Nat) := es.map fun e => (e.d, e.r)

def rowOfSt (s : St) : Row := if s.haveNull then Row.none else Row.list s.part

/-- effect of one element entry on the running state -/
def addCell (s : St) (c : Cell) : St :=
  { s with part := s.part ++ [c], vali := s.vali + (if c = Cell.null then 0 else 1), haveNull := false }

def nonNull (cs : List Cell) : List Cell := cs.filter fun c => decide (c ≠ Cell.null)

theorem lv_append (a b : List Entry) : lv (a ++ b) = lv a ++ lv b := by simp [lv]

theorem loop_append (null : Bool) (maxDef : Nat) (vals : List Cell) (a b : List (Nat × Nat)) (s : St) :
    loop null maxDef vals (a ++ b) s =
      match loop null maxDef vals a s with
      | .error f => .error f
      | .ok s' => loop null maxDef vals b s' := by
  induction a generalizing s with
  | nil => simp [loop, pure, Except.pure]
  | cons x xs ih =>
    obtain ⟨de, re⟩ := x
    simp only [List.cons_append, loop]
    cases h : step null maxDef vals s de re with
    | error f => simp
    | ok s' => simp [ih]

/-- schema side conditions: `o` levels above the repeated group (0 or 1), `null` says which -/
structure Sch (o maxDef : Nat) (null : Bool) : Prop where
  o_le : o ≤ 1
  null_eq : null = decide (o = 1)
  md : o < maxDef

def cellOk (o maxDef : Nat) (c : Cell) : Prop := c = Cell.null → o + 2 ≤ maxDef

theorem step_elem {o maxDef : Nat} {null : Bool} (h : Sch o maxDef null) (vals : List Cell) (s s1 : St) (c : Cell) (r : Nat)
    (hf : flush s r = .ok s1) (hc : cellOk o maxDef c) (hv : c ≠ Cell.null → vals[s1.vali]? = some c) :
    step null maxDef vals s (elemEntry maxDef r c).d r = .ok (addCell s1 c) := by
  have ho := h.o_le
  have hmd := h.md
  have hn : (if null then 1 else 0) = o := by
    rw [h.null_eq]; by_cases h1 : o = 1 <;> simp [h1] <;> omega
  unfold step
  rw [hf]
  by_cases hcn : c = Cell.null
  · have h2 := hc hcn
    have hd : (elemEntry maxDef r c).d = maxDef - 1 := by simp [elemEntry, hcn]
    have hne : ¬ (maxDef - 1 = maxDef) := by omega
    have hgt : maxDef - 1 > o := by omega
    have hz : ((maxDef - 1 == 0) && null) = false := by
      have : ¬ (maxDef - 1 = 0) := by omega
      simp [this]
    simp only [hd, addElem, hne, if_false, hn, hgt, if_true, hz]
    simp [addCell, hcn]
  · have hd : (elemEntry maxDef r c).d = maxDef := by simp [elemEntry, hcn]
    have hz : ((maxDef == 0) && null) = false := by
      have : ¬ (maxDef = 0) := by omega
      simp [this]
    simp only [hd, addElem, if_true, hv hcn, hz]
    simp [addCell, hcn]

theorem flush_cont (s : St) : flush s 1 = .ok s := by simp [flush]

theorem foldl_addCell_fields (cs : List Cell) (s : St) :
    (cs.foldl addCell s).assign = s.assign ∧ (cs.foldl addCell s).i = s.i ∧ (cs.foldl addCell s).started = s.started ∧
    (cs.foldl addCell s).part = s.part ++ cs ∧ (cs.foldl addCell s).vali = s.vali + (nonNull cs).length := by
  induction cs generalizing s with
  | nil => simp [nonNull]
  | cons c cs ih =>
    obtain ⟨h1, h2, h3, h4, h5⟩ := ih (addCell s c)
    simp only [List.foldl_cons]
    refine ⟨by rw [h1]; rfl, by rw [h2]; rfl, by rw [h3]; rfl, by rw [h4]; simp [addCell], ?_⟩
    rw [h5]
    by_cases hc : c = Cell.null
    · simp [addCell, nonNull, hc]
    · simp [addCell, nonNull, hc, List.filter_cons]; omega

theorem foldl_addCell_haveNull (c : Cell) (cs : List Cell) (s : St) : ((c :: cs).foldl addCell s).haveNull = false := by
  induction cs generalizing s c with
  | nil => simp [addCell]
  | cons d ds ih =>
    simp only [List.foldl_cons] at ih ⊢
    exact ih d (addCell s c)

/-- continuation entries of a row -/
theorem loop_conts {o maxDef : Nat} {null : Bool} (h : Sch o maxDef null) (vals : List Cell) (rest : List (Nat × Nat)) :
    ∀ (cs : List Cell) (s : St) (pre post : List Cell), (∀ c ∈ cs, cellOk o maxDef c) →
      vals = pre ++ nonNull cs ++ post → s.vali = pre.length →
      loop null maxDef vals (lv (cs.map (elemEntry maxDef 1)) ++ rest) s = loop null maxDef vals rest (cs.foldl addCell s) := by
  intro cs
  induction cs with
  | nil => intro s pre post _ _ _; simp [lv]
  | cons c cs ih =>
    intro s pre post hok hvals hvali
    have hstep : step null maxDef vals s (elemEntry maxDef 1 c).d 1 = .ok (addCell s c) := by
      apply step_elem h vals s s c 1 (flush_cont s) (hok c (List.mem_cons_self))
      intro hcn
      rw [hvals, hvali]
      simp [nonNull, List.filter_cons, hcn]
    simp only [List.map_cons, lv, List.cons_append, loop, List.foldl_cons]
    have e : (elemEntry maxDef 1 c).r = 1 := rfl
    rw [e, hstep]
    simp only
    have := ih (addCell s c) (pre ++ (if c = Cell.null then [] else [c])) post
      (fun x hx => hok x (List.mem_cons_of_mem _ hx))
      (by
        rw [hvals]
        by_cases hcn : c = Cell.null <;> simp [nonNull, List.filter_cons, hcn])
      (by
        by_cases hcn : c = Cell.null <;> simp [addCell, hcn, hvali])
    simpa [lv] using this

def rowCellsOk (o maxDef : Nat) : Row → Prop
  | .none => 1 ≤ o
  | .list es => ∀ c ∈ es, cellOk o maxDef c

theorem rowCellsOk_of_ok {o maxDef : Nat} {row : Row} (h : row.ok o maxDef = true) : rowCellsOk o maxDef row := by
  cases row with
  | none => simpa [Row.ok, rowCellsOk] using h
  | list es =>
    intro c hc hcn
    have := h
    simp only [Row.ok, List.all_eq_true, Bool.or_eq_true, decide_eq_true_eq] at this
    rcases this c hc with h' | h'
    · exact absurd hcn h'
    · exact h'

/-- state after the entries of `row`, starting from the state `s1` left by the flush at its first entry -/
def openRow (s1 : St) : Row → St
  | .none => { s1 with haveNull := true }
  | .list [] => { s1 with haveNull := false }
  | .list (c :: cs) => (c :: cs).foldl addCell s1

def rowValues : Row → List Cell
  | .none => []
  | .list es => nonNull es

theorem valuesOf_encodeRow (o maxDef : Nat) (h1 : o < maxDef) (row : Row) (hok : rowCellsOk o maxDef row) :
    valuesOf maxDef (encodeRow o maxDef row) = rowValues row := by
  cases row with
  | none =>
    have : ¬ (o - 1 = maxDef) := by omega
    simp [encodeRow, valuesOf, rowValues, this]
  | list es =>
    cases es with
    | nil =>
      have : ¬ (o = maxDef) := by omega
      simp [encodeRow, valuesOf, rowValues, nonNull, this]
    | cons c cs =>
      have key : ∀ (r : Nat) (l : List Cell), (∀ x ∈ l, cellOk o maxDef x) →
          valuesOf maxDef (l.map (elemEntry maxDef r)) = nonNull l := by
        intro r l
        induction l with
        | nil => intro _; simp [valuesOf, nonNull]
        | cons x xs ih =>
          intro hx
          have ih' := ih (fun y hy => hx y (List.mem_cons_of_mem _ hy))
          simp only [valuesOf, nonNull] at ih' ⊢
          by_cases hxn : x = Cell.null
          · have := hx x (List.mem_cons_self) hxn
            have hne : ¬ (maxDef - 1 = maxDef) := by omega
            simp [elemEntry, hxn, List.filter_cons, hne]
            simpa [elemEntry] using ih'
          · simp [elemEntry, hxn, List.filter_cons]
            simpa [elemEntry] using ih'
      have hc := hok c (List.mem_cons_self)
      have hcs : ∀ x ∈ cs, cellOk o maxDef x := fun x hx => hok x (List.mem_cons_of_mem _ hx)
      have k1 := key 0 [c] (by intro x hx; simp at hx; subst hx; exact hc)
      have k2 := key 1 cs hcs
      simp only [encodeRow, rowValues]
      have : valuesOf maxDef (elemEntry maxDef 0 c :: cs.map (elemEntry maxDef 1))
          = valuesOf maxDef ([c].map (elemEntry maxDef 0)) ++ valuesOf maxDef (cs.map (elemEntry maxDef 1)) := by
        simp [valuesOf, List.filter_cons]
        split <;> simp
      rw [this, k1, k2]
      simp [nonNull, List.filter_cons]
      split <;> simp

/-- the entries of one row, processed from a state whose flush at the row's first entry gives `s1` -/
theorem loop_row {o maxDef : Nat} {null : Bool} (h : Sch o maxDef null) (vals : List Cell) (rest : List (Nat × Nat))
    (row : Row) (hok : rowCellsOk o maxDef row) (s s1 : St) (pre post : List Cell)
    (hf : flush s 0 = .ok s1) (hp : s1.part = []) (hvals : vals = pre ++ rowValues row ++ post) (hvali : s1.vali = pre.length) :
    loop null maxDef vals (lv (encodeRow o maxDef row) ++ rest) s = loop null maxDef vals rest (openRow s1 row) := by
  have ho := h.o_le
  have hmd := h.md
  have hn : (if null then 1 else 0) = o := by
    rw [h.null_eq]; by_cases h1 : o = 1 <;> simp [h1] <;> omega
  cases row with
  | none =>
    have ho1 : o = 1 := by have : 1 ≤ o := hok; omega
    have hnull : null = true := by rw [h.null_eq]; simp [ho1]
    have h0 : ¬ (0 = maxDef) := by omega
    simp only [encodeRow, lv, List.map_cons, List.map_nil, List.cons_append, List.nil_append, loop, step, hf, ho1,
      Nat.sub_self, addElem, h0, if_false, hnull, if_true, Nat.lt_irrefl, gt_iff_lt, Nat.not_lt_zero]
    simp [openRow, hnull]
  | list es =>
    cases es with
    | nil =>
      have h0 : ¬ (o = maxDef) := by omega
      have hz : ((o == 0) && null) = false := by
        rw [h.null_eq]
        by_cases h1 : o = 1
        · simp [h1]
        · have : o = 0 := by omega
          simp [this]
      simp only [encodeRow, lv, List.map_cons, List.map_nil, List.cons_append, List.nil_append, loop, step, hf,
        addElem, h0, if_false, hn, gt_iff_lt, Nat.lt_irrefl, hz]
      simp [openRow]
    | cons c cs =>
      have hc := hok c (List.mem_cons_self)
      have hcs : ∀ x ∈ cs, cellOk o maxDef x := fun x hx => hok x (List.mem_cons_of_mem _ hx)
      have hstep : step null maxDef vals s (elemEntry maxDef 0 c).d 0 = .ok (addCell s1 c) := by
        apply step_elem h vals s s1 c 0 hf hc
        intro hcn
        rw [hvals, hvali]
        simp [rowValues, nonNull, List.filter_cons, hcn]
      simp only [encodeRow, lv, List.map_cons, List.cons_append, loop]
      have e : (elemEntry maxDef 0 c).r = 0 := rfl
      rw [e, hstep]
      simp only
      have := loop_conts h vals rest cs (addCell s1 c) (pre ++ (if c = Cell.null then [] else [c])) post hcs
        (by
          rw [hvals]
          by_cases hcn : c = Cell.null <;> simp [rowValues, nonNull, List.filter_cons, hcn])
        (by
          by_cases hcn : c = Cell.null <;> simp [addCell, hcn, hvali])
      simp only [lv] at this
      rw [this]
      simp [openRow]

theorem rowOfSt_openRow (s1 : St) (row : Row) (hp : s1.part = []) : rowOfSt (openRow s1 row) = row := by
  cases row with
  | none => simp [openRow, rowOfSt]
  | list es =>
    cases es with
    | nil => simp [openRow, rowOfSt, hp]
    | cons c cs =>
      have hn := foldl_addCell_haveNull c cs s1
      have hf := (foldl_addCell_fields (c :: cs) s1).2.2.2.1
      simp only [openRow, rowOfSt, hn]
      rw [hf, hp]; simp

theorem openRow_fields (s1 : St) (row : Row) :
    (openRow s1 row).assign = s1.assign ∧ (openRow s1 row).i = s1.i ∧ (openRow s1 row).started = s1.started ∧
    (openRow s1 row).vali = s1.vali + (rowValues row).length := by
  cases row with
  | none => simp [openRow, rowValues]
  | list es =>
    cases es with
    | nil => simp [openRow, rowValues, nonNull]
    | cons c cs =>
      obtain ⟨h1, h2, h3, _, h5⟩ := foldl_addCell_fields (c :: cs) s1
      exact ⟨h1, h2, h3, by simpa [openRow, rowValues] using h5⟩

def allValues (rows : List Row) : List Cell := rows.flatMap rowValues

theorem set_at_prefix (pre : List Row) (x r : Row) (suf : List Row) :
    setSlot (pre ++ x :: suf) pre.length r = .ok (pre ++ r :: suf) := by
  simp [setSlot]

/-- rows processed from a *started* state: every new row first saves the open one into its slot -/
theorem loop_rows {o maxDef : Nat} {null : Bool} (h : Sch o maxDef null) (vals : List Cell) :
    ∀ (rows : List Row) (s : St) (committed suf : List Row) (pre post : List Cell),
      (∀ r ∈ rows, rowCellsOk o maxDef r) →
      s.started = true → s.assign = committed ++ suf → s.i = committed.length → rows.length ≤ suf.length →
      vals = pre ++ allValues rows ++ post → s.vali = pre.length →
      ∃ s', loop null maxDef vals (lv (encodeRows o maxDef rows)) s = .ok s' ∧ s'.started = true ∧
        s'.i = committed.length + rows.length ∧
        s'.assign = committed ++ (rowOfSt s :: rows).dropLast ++ suf.drop rows.length ∧
        rowOfSt s' = (rowOfSt s :: rows).getLast (by simp) ∧
        s'.vali = pre.length + (allValues rows).length := by
  intro rows
  induction rows with
  | nil =>
    intro s committed suf pre post _ hst ha hi _ _ hvali
    refine ⟨s, by simp [encodeRows, lv, loop, pure, Except.pure], hst, by simpa using hi, by simpa using ha, by simp, by simpa [allValues] using hvali⟩
  | cons r rs ih =>
    intro s committed suf pre post hok hst ha hi hlen hvals hvali
    obtain ⟨x, suf', rfl⟩ : ∃ x suf', suf = x :: suf' := by
      cases suf with
      | nil => simp at hlen
      | cons x t => exact ⟨x, t, rfl⟩
    -- the flush at the first entry of `r`
    let s1 : St := { s with assign := committed ++ rowOfSt s :: suf', part := [], i := s.i + 1 }
    have hf : flush s 0 = .ok s1 := by
      have := set_at_prefix committed x (rowOfSt s) suf'
      simp only [flush, if_true, hst, ha, hi]
      rw [show (if s.haveNull = true then Row.none else Row.list s.part) = rowOfSt s from rfl, this]
      simp [s1, hst, hi]
    have hrow := loop_row h vals (lv (encodeRows o maxDef rs)) r (hok r (List.mem_cons_self)) s s1 pre
      (allValues rs ++ post) hf rfl (by simpa [allValues, List.append_assoc] using hvals) hvali
    obtain ⟨f1, f2, f3, f4⟩ := openRow_fields s1 r
    have hro := rowOfSt_openRow s1 r rfl
    obtain ⟨s', hl, hst', hi', ha', hr', hv'⟩ := ih (openRow s1 r) (committed ++ [rowOfSt s]) suf' (pre ++ rowValues r) post
      (fun y hy => hok y (List.mem_cons_of_mem _ hy))
      (by rw [f3]; exact hst)
      (by rw [f1]; simp [s1])
      (by rw [f2]; simp [s1, hi])
      (by simpa using hlen)
      (by simpa [allValues, List.append_assoc] using hvals)
      (by rw [f4]; simp [s1, hvali])
    refine ⟨s', ?_, hst', ?_, ?_, ?_, ?_⟩
    · simp only [encodeRows, List.flatMap_cons, lv_append]
      have := hrow
      simp only [encodeRows] at this
      rw [this]
      simpa [encodeRows] using hl
    · rw [hi']; simp; omega
    · rw [ha', hro]
      simp [List.dropLast_cons_of_ne_nil]
    · rw [hr', hro]
      simp [List.getLast_cons]
    · rw [hv']; simp [allValues]; omega

theorem zeros_encodeRows (o maxDef : Nat) (rows : List Row) :
    ((lv (encodeRows o maxDef rows)).filter (·.2 == 0)).length = rows.length := by
  induction rows with
  | nil => simp [encodeRows, lv]
  | cons r rs ih =>
    have hr : ((lv (encodeRow o maxDef r)).filter (·.2 == 0)).length = 1 := by
      cases r with
      | none => simp [encodeRow, lv]
      | list es =>
        cases es with
        | nil => simp [encodeRow, lv]
        | cons c cs =>
          have : ((cs.map (elemEntry maxDef 1)).map (fun e => (e.d, e.r))).filter (·.2 == 0) = [] := by
            simp [List.filter_eq_nil_iff, elemEntry]
          simp [encodeRow, lv, elemEntry, List.filter_cons] at this ⊢
    simp only [encodeRows, List.flatMap_cons, lv_append, List.filter_append, List.length_append] at ih ⊢
    rw [hr, ih]; simp; omega

theorem valuesOf_encodeRows (o maxDef : Nat) (hmd : o < maxDef) (l : List Row) (hl : ∀ r ∈ l, rowCellsOk o maxDef r) :
    valuesOf maxDef (encodeRows o maxDef l) = allValues l := by
  induction l with
  | nil => simp [encodeRows, valuesOf, allValues]
  | cons a b ih =>
    have ha := valuesOf_encodeRow o maxDef hmd a (hl a (List.mem_cons_self))
    have hb := ih (fun y hy => hl y (List.mem_cons_of_mem _ hy))
    simp only [valuesOf, encodeRows, allValues, List.flatMap_cons, List.filter_append, List.map_append] at ha hb ⊢
    rw [ha, hb]

/-- the rows of a page, processed from the state `s` whose flush at the first row start gives `s1` -/
theorem loop_page_rows {o maxDef : Nat} {null : Bool} (h : Sch o maxDef null) (vals : List Cell) (r0 : Row) (rs : List Row)
    (hcell : ∀ r ∈ r0 :: rs, rowCellsOk o maxDef r) (s s1 : St) (committed suf : List Row) (pre post : List Cell)
    (hf : flush s 0 = .ok s1) (hp : s1.part = []) (hst : s1.started = true) (ha : s1.assign = committed ++ suf)
    (hi : s1.i = committed.length) (hlen : (r0 :: rs).length ≤ suf.length)
    (hvals : vals = pre ++ allValues (r0 :: rs) ++ post) (hvali : s1.vali = pre.length) :
    ∃ s', loop null maxDef vals (lv (encodeRows o maxDef (r0 :: rs))) s = .ok s' ∧ s'.started = true ∧
      s'.i = committed.length + rs.length ∧
      s'.assign = committed ++ (r0 :: rs).dropLast ++ suf.drop rs.length ∧
      rowOfSt s' = (r0 :: rs).getLast (by simp) := by
  have hrow := loop_row h vals (lv (encodeRows o maxDef rs)) r0 (hcell r0 (List.mem_cons_self)) s s1 pre
    (allValues rs ++ post) hf hp (by simpa [allValues, List.append_assoc] using hvals) hvali
  obtain ⟨f1, f2, f3, f4⟩ := openRow_fields s1 r0
  have hro := rowOfSt_openRow s1 r0 hp
  obtain ⟨s', hl, hst', hi', ha', hr', _⟩ := loop_rows h vals rs (openRow s1 r0) committed suf (pre ++ rowValues r0) post
    (fun y hy => hcell y (List.mem_cons_of_mem _ hy))
    (by rw [f3]; exact hst)
    (by rw [f1]; exact ha)
    (by rw [f2]; exact hi)
    (by simp at hlen; omega)
    (by simpa [allValues, List.append_assoc] using hvals)
    (by rw [f4]; simp [hvali])
  refine ⟨s', ?_, hst', hi', ?_, ?_⟩
  · simp only [encodeRows, List.flatMap_cons, lv_append]
    have := hrow
    simp only [encodeRows] at this
    rw [this]
    simpa [encodeRows] using hl
  · rw [ha', hro]
  · rw [hr', hro]

/-- the store of the open row after the loop -/
theorem final_store (r0 : Row) (rs : List Row) (s' : St) (committed suf : List Row)
    (hlen : (r0 :: rs).length ≤ suf.length) (hi' : s'.i = committed.length + rs.length)
    (ha' : s'.assign = committed ++ (r0 :: rs).dropLast ++ suf.drop rs.length)
    (hr' : rowOfSt s' = (r0 :: rs).getLast (by simp)) :
    setSlot s'.assign s'.i (if s'.haveNull then Row.none else Row.list s'.part)
      = .ok (committed ++ (r0 :: rs) ++ suf.drop (r0 :: rs).length) := by
  have hlast : (if s'.haveNull = true then Row.none else Row.list s'.part) = (r0 :: rs).getLast (by simp) := by
    simpa [rowOfSt] using hr'
  rw [hlast, ha', hi']
  have hdrop : suf.drop rs.length ≠ [] := by
    intro hcontra
    have := congrArg List.length hcontra
    simp at this hlen
    omega
  obtain ⟨x, t, hxt⟩ : ∃ x t, suf.drop rs.length = x :: t := by
    cases hd : suf.drop rs.length with
    | nil => exact absurd hd hdrop
    | cons x t => exact ⟨x, t, rfl⟩
  have hpre : (committed ++ (r0 :: rs).dropLast).length = committed.length + rs.length := by
    simp
  have hset := set_at_prefix (committed ++ (r0 :: rs).dropLast) x ((r0 :: rs).getLast (by simp)) t
  rw [hpre] at hset
  rw [hxt]
  simp only [List.append_assoc] at hset ⊢
  rw [hset]
  congr 1
  have hd2 : suf.drop (r0 :: rs).length = t := by
    have : suf.drop (rs.length + 1) = (suf.drop rs.length).drop 1 := by simp [List.drop_drop]
    simp only [List.length_cons]
    rw [this, hxt]; rfl
  rw [hd2]
  have : (r0 :: rs).dropLast ++ [(r0 :: rs).getLast (by simp)] = r0 :: rs := List.dropLast_concat_getLast (by simp)
  have e : committed ++ ((r0 :: rs).dropLast ++ (r0 :: rs).getLast (by simp) :: t) = committed ++ (((r0 :: rs).dropLast ++ [(r0 :: rs).getLast (by simp)]) ++ t) := by simp
  rw [e, this]

/-- **one page of whole rows**: `_assemble_objects` called with `prev_i` = number of rows already
    stored writes exactly the page's rows behind them and returns the index of the last one. -/
theorem assembleObjects_rows {o maxDef : Nat} {null : Bool} (h : Sch o maxDef null) (rows : List Row) (hne : rows ≠ [])
    (hok : ∀ r ∈ rows, r.ok o maxDef = true) (committed suf : List Row) (hlen : rows.length ≤ suf.length) :
    assembleObjects (committed ++ suf) (lv (encodeRows o maxDef rows)) (valuesOf maxDef (encodeRows o maxDef rows)) null maxDef committed.length
      = .ok (committed ++ rows ++ suf.drop rows.length, committed.length + rows.length - 1) := by
  obtain ⟨r0, rs, rfl⟩ : ∃ r0 rs, rows = r0 :: rs := by
    cases rows with
    | nil => exact absurd rfl hne
    | cons a b => exact ⟨a, b, rfl⟩
  have hcell : ∀ r ∈ r0 :: rs, rowCellsOk o maxDef r := fun r hr => rowCellsOk_of_ok (hok r hr)
  rw [valuesOf_encodeRows o maxDef h.md _ hcell]
  unfold assembleObjects
  let s0 : St := { assign := committed ++ suf, i := committed.length, part := [], vali := 0, started := false, haveNull := false }
  let s1 : St := { s0 with started := true }
  have hf : flush s0 0 = .ok s1 := by simp [flush, s0, s1]
  obtain ⟨s', hloop, hst', hi', ha', hr'⟩ := loop_page_rows h (allValues (r0 :: rs)) r0 rs hcell s0 s1 committed suf [] []
    hf rfl rfl rfl rfl hlen (by simp) rfl
  simp only [s0] at hloop
  simp only [hloop, bind, Except.bind, hst', if_true]
  rw [final_store r0 rs s' committed suf hlen hi' ha' hr', hi']
  simp [pure, Except.pure]

def pageOf (o maxDef : Nat) (p : List Row) : List (Nat × Nat) × List Cell :=
  (lv (encodeRows o maxDef p), valuesOf maxDef (encodeRows o maxDef p))

/-- **pages cut at row boundaries**, chained as `read_col` chains them (either chaining rule): the
    rows of all pages land in order behind what was already stored -/
theorem readPages_rows {o maxDef : Nat} {null : Bool} (h : Sch o maxDef null) :
    ∀ (pages : List (List Row)) (committed suf : List Row),
      (∀ p ∈ pages, p ≠ [] ∧ ∀ r ∈ p, r.ok o maxDef = true) → pages.flatten.length ≤ suf.length →
      readPages null maxDef (pages.map (pageOf o maxDef)) (committed ++ suf) committed.length
        = .ok (committed ++ pages.flatten ++ suf.drop pages.flatten.length) := by
  intro pages
  induction pages with
  | nil => intro committed suf _ _; simp [readPages, pure, Except.pure]
  | cons p ps ih =>
    intro committed suf hp hlen
    obtain ⟨hne, hok⟩ := hp p (List.mem_cons_self)
    have hlen1 : p.length ≤ suf.length := by
      simp only [List.flatten_cons, List.length_append] at hlen; omega
    have ha := assembleObjects_rows h p hne hok committed suf hlen1
    have hpos : 0 < p.length := List.length_pos_iff.mpr hne
    have hnext : (if PqV.Gen.Nested.chainByZeros = true
        then committed.length + ((lv (encodeRows o maxDef p)).filter (·.2 == 0)).length
        else committed.length + p.length - 1 + 1) = (committed ++ p).length := by
      rw [zeros_encodeRows]
      split <;> simp <;> omega
    simp only [List.map_cons, readPages, pageOf, ha, bind, Except.bind]
    rw [hnext]
    have := ih (committed ++ p) (suf.drop p.length) (fun q hq => hp q (List.mem_cons_of_mem _ hq))
      (by simp only [List.flatten_cons, List.length_append, List.length_drop] at hlen ⊢; omega)
    rw [this]
    simp [List.drop_drop, Nat.add_comm]

/-- a whole chunk: `n` empty slots, pages of whole rows holding `n` rows in all -/
theorem readChunk_rows {o maxDef : Nat} {null : Bool} (h : Sch o maxDef null) (pages : List (List Row))
    (hp : ∀ p ∈ pages, p ≠ [] ∧ ∀ r ∈ p, r.ok o maxDef = true) :
    readChunk pages.flatten.length null maxDef (pages.map (pageOf o maxDef)) = .ok pages.flatten := by
  have := readPages_rows h pages [] (List.replicate pages.flatten.length Row.none) hp (by simp)
  simpa [readChunk] using this

/-! ### pages cut anywhere -/

/-- a page as `read_col` sees it: first the continuation of the previous page's last row (`frag`,
    possibly empty), then whole rows (the last of which may be continued by the next page) -/
structure Page where
  frag : List Cell
  rows : List Row

def Page.entries (o maxDef : Nat) (p : Page) : List Entry :=
  p.frag.map (elemEntry maxDef 1) ++ encodeRows o maxDef p.rows

def gpageOf (o maxDef : Nat) (p : Page) : List (Nat × Nat) × List Cell :=
  (lv (p.entries o maxDef), valuesOf maxDef (p.entries o maxDef))

/-- record assembly of a continuation: the cells join the last row -/
def extendLast (rows : List Row) (frag : List Cell) : List Row :=
  match rows.getLast? with
  | some (Row.list es) => rows.dropLast ++ [Row.list (es ++ frag)]
  | _ => rows

def joinPage (acc : List Row) (p : Page) : List Row := extendLast acc p.frag ++ p.rows

theorem extendLast_snoc (pre : List Row) (es frag : List Cell) :
    extendLast (pre ++ [Row.list es]) frag = pre ++ [Row.list (es ++ frag)] := by
  simp [extendLast]

theorem extendLast_nil (rows : List Row) : extendLast rows [] = rows := by
  unfold extendLast
  cases h : rows.getLast? with
  | none => rfl
  | some r =>
    cases r with
    | none => rfl
    | list es =>
      have hne : rows ≠ [] := by intro hc; simp [hc] at h
      have hl : rows.getLast hne = Row.list es := by
        have := List.getLast?_eq_some_getLast hne
        rw [this] at h; exact Option.some.inj h
      simp only [List.append_nil]
      rw [← hl]; exact List.dropLast_concat_getLast hne

theorem valuesOf_elems (o maxDef r : Nat) (l : List Cell) (hl : ∀ x ∈ l, cellOk o maxDef x) (hmd : o < maxDef) :
    valuesOf maxDef (l.map (elemEntry maxDef r)) = nonNull l := by
  induction l with
  | nil => simp [valuesOf, nonNull]
  | cons x xs ih =>
    have ih' := ih (fun y hy => hl y (List.mem_cons_of_mem _ hy))
    simp only [valuesOf, nonNull] at ih' ⊢
    by_cases hxn : x = Cell.null
    · have := hl x (List.mem_cons_self) hxn
      have hne : ¬ (maxDef - 1 = maxDef) := by omega
      simp [elemEntry, hxn, List.filter_cons, hne]
      simpa [elemEntry] using ih'
    · simp [elemEntry, hxn, List.filter_cons]
      simpa [elemEntry] using ih'

/-- the specification side: assembling a page's entries after `acc` is `joinPage` -/
theorem spec_page (o maxDef : Nat) (hmd : o < maxDef) (acc : List Row) (p : Page)
    (hfrag : p.frag = [] ∨ ∃ pre es, acc = pre ++ [Row.list es]) (hok : ∀ r ∈ p.rows, r.ok o maxDef = true) :
    (p.entries o maxDef).foldl (pushEntry o) acc = joinPage acc p := by
  simp only [Page.entries, List.foldl_append, joinPage]
  rcases hfrag with hf | ⟨pre, es, rfl⟩
  · rw [hf]; simp only [List.map_nil, List.foldl_nil, extendLast_nil]
    exact foldl_encodeRows o maxDef hmd p.rows hok acc
  · rw [foldl_conts, extendLast_snoc]
    exact foldl_encodeRows o maxDef hmd p.rows hok _

theorem extendPrev_at (pre : List Row) (es part : List Cell) (suf : List Row) :
    extendPrev (pre ++ Row.list es :: suf) (pre.length + 1) part = .ok (pre ++ Row.list (es ++ part) :: suf) := by
  unfold extendPrev
  have hj : (if pre.length + 1 = 0 then ((pre ++ Row.list es :: suf).length : Int) - 1 else ((pre.length + 1 : Nat) : Int) - 1) = (pre.length : Int) := by
    simp
  simp only [hj]
  have h1 : ¬ ((pre.length : Int) < 0 ∨ (pre.length : Int) ≥ ((pre ++ Row.list es :: suf).length : Nat)) := by
    simp; omega
  simp only [h1, if_false, Int.toNat_natCast]
  simp

/-- **a page that starts inside a row** (its continuation carries at least one value) -/
theorem assembleObjects_frag {o maxDef : Nat} {null : Bool} (h : Sch o maxDef null) (p : Page)
    (hfv : nonNull p.frag ≠ []) (hfc : ∀ c ∈ p.frag, cellOk o maxDef c) (hok : ∀ r ∈ p.rows, r.ok o maxDef = true)
    (pre : List Row) (es : List Cell) (suf : List Row) (hlen : p.rows.length ≤ suf.length) :
    assembleObjects (pre ++ [Row.list es] ++ suf) (gpageOf o maxDef p).1 (gpageOf o maxDef p).2 null maxDef (pre.length + 1)
      = .ok (pre ++ [Row.list (es ++ p.frag)] ++ p.rows ++ suf.drop p.rows.length,
             pre.length + 1 + p.rows.length - (if p.rows = [] then 0 else 1)) := by
  obtain ⟨frag, rows⟩ := p
  simp only at hfv hfc hok hlen ⊢
  have hcell : ∀ r ∈ rows, rowCellsOk o maxDef r := fun r hr => rowCellsOk_of_ok (hok r hr)
  have hv : valuesOf maxDef (frag.map (elemEntry maxDef 1) ++ encodeRows o maxDef rows) = nonNull frag ++ allValues rows := by
    simp only [valuesOf, List.filter_append, List.map_append]
    have a := valuesOf_elems o maxDef 1 frag hfc h.md
    have b := valuesOf_encodeRows o maxDef h.md rows hcell
    simp only [valuesOf] at a b
    rw [a, b]
  simp only [gpageOf, Page.entries, hv, lv_append]
  unfold assembleObjects
  let s0 : St := { assign := pre ++ [Row.list es] ++ suf, i := pre.length + 1, part := [], vali := 0, started := false, haveNull := false }
  have hconts := loop_conts h (nonNull frag ++ allValues rows) (lv (encodeRows o maxDef rows)) frag s0 [] (allValues rows) hfc
    (by simp) rfl
  simp only [s0] at hconts
  rw [hconts]
  obtain ⟨g1, g2, g3, g4, g5⟩ := foldl_addCell_fields frag s0
  have hvpos : 0 < (frag.foldl addCell s0).vali := by
    rw [g5]; simp only [s0]
    have : 0 < (nonNull frag).length := List.length_pos_iff.mpr hfv
    omega
  cases rows with
  | nil =>
    simp only [encodeRows, List.flatMap_nil, lv, List.map_nil, loop, pure, Except.pure, bind, Except.bind]
    have hns : (frag.foldl addCell s0).started = false := by rw [g3]
    simp only [s0] at hns g1 g2 g4
    simp only [hns, Bool.false_eq_true, if_false, g1, g2, g4]
    have := extendPrev_at pre es frag suf
    simp only [List.append_assoc, List.singleton_append, List.nil_append] at this ⊢
    rw [this]
    simp
  | cons r0 rs =>
    let sF : St := frag.foldl addCell s0
    let s1 : St := { sF with assign := pre ++ [Row.list (es ++ frag)] ++ suf, part := [], started := true }
    have hf : flush sF 0 = .ok s1 := by
      have hns : sF.started = false := by simp only [sF]; rw [g3]
      have hpos : sF.vali > 0 := hvpos
      have hx := extendPrev_at pre es frag suf
      simp only [flush, if_true, hns, Bool.false_eq_true, if_false, hpos]
      have ea : sF.assign = pre ++ Row.list es :: suf := by simp only [sF]; rw [g1]; simp [s0]
      have ei : sF.i = pre.length + 1 := by simp only [sF]; rw [g2]
      have ep : sF.part = frag := by simp only [sF]; rw [g4]; simp [s0]
      rw [ea, ei, ep, hx]
      simp [s1, ei]
    obtain ⟨s', hloop, hst', hi', ha', hr'⟩ := loop_page_rows h (nonNull frag ++ allValues (r0 :: rs)) r0 rs hcell sF s1
      (pre ++ [Row.list (es ++ frag)]) suf (nonNull frag) [] hf rfl rfl rfl (by simp [s1, sF]; rw [g2]) hlen (by simp)
      (by simp only [s1, sF]; rw [g5]; simp [s0])
    simp only [sF, s0] at hloop
    rw [hloop]
    simp only [bind, Except.bind, hst', if_true]
    have hi'' : s'.i = (pre ++ [Row.list (es ++ frag)]).length + rs.length := hi'
    rw [final_store r0 rs s' (pre ++ [Row.list (es ++ frag)]) suf hlen hi'' ha' hr', hi']
    simp [pure, Except.pure]

/-- pages the kernel handles: a page either starts at a row start, or the continuation it starts
    with carries at least one value and continues a non-null row -/
def PagesOk (o maxDef : Nat) : List Row → List Page → Prop
  | _, [] => True
  | acc, p :: ps =>
    ((p.frag = [] ∧ p.rows ≠ []) ∨ (nonNull p.frag ≠ [] ∧ ∃ pre es, acc = pre ++ [Row.list es])) ∧
    (∀ c ∈ p.frag, cellOk o maxDef c) ∧ (∀ r ∈ p.rows, r.ok o maxDef = true) ∧
    PagesOk o maxDef (joinPage acc p) ps

def newRows (pages : List Page) : Nat := (pages.map (·.rows.length)).sum

theorem zeros_gpage (o maxDef : Nat) (p : Page) :
    ((gpageOf o maxDef p).1.filter (·.2 == 0)).length = p.rows.length := by
  simp only [gpageOf, Page.entries, lv_append, List.filter_append, List.length_append, zeros_encodeRows]
  have : ((lv (p.frag.map (elemEntry maxDef 1))).filter (·.2 == 0)) = [] := by
    simp [lv, List.filter_eq_nil_iff, elemEntry]
  rw [this]; simp

theorem readPages_general {o maxDef : Nat} {null : Bool} (h : Sch o maxDef null) (hz : PqV.Gen.Nested.chainByZeros = true) :
    ∀ (pages : List Page) (acc suf : List Row), PagesOk o maxDef acc pages → newRows pages ≤ suf.length →
      readPages null maxDef (pages.map (gpageOf o maxDef)) (acc ++ suf) acc.length
        = .ok (pages.foldl joinPage acc ++ suf.drop (newRows pages)) := by
  intro pages
  induction pages with
  | nil => intro acc suf _ _; simp [readPages, pure, Except.pure, newRows]
  | cons p ps ih =>
    intro acc suf hok hlen
    obtain ⟨hcase, hfc, hrows, hrest⟩ := hok
    have hlen1 : p.rows.length ≤ suf.length := by simp [newRows] at hlen; omega
    have hlen2 : newRows ps ≤ (suf.drop p.rows.length).length := by simp [newRows] at hlen ⊢; omega
    simp only [List.map_cons, readPages, List.foldl_cons]
    rcases hcase with ⟨hf, hne⟩ | ⟨hfv, pre, es, rfl⟩
    · -- the page starts at a row start
      have hg : gpageOf o maxDef p = pageOf o maxDef p.rows := by simp [gpageOf, pageOf, Page.entries, hf]
      have ha := assembleObjects_rows h p.rows hne hrows acc suf hlen1
      have hj : joinPage acc p = acc ++ p.rows := by simp [joinPage, hf, extendLast_nil]
      rw [hg]
      simp only [pageOf] at ha ⊢
      simp only [ha, bind, Except.bind, hz, if_true, zeros_encodeRows]
      have := ih (acc ++ p.rows) (suf.drop p.rows.length) (by rw [← hj]; exact hrest) hlen2
      simp only [List.length_append] at this
      rw [this, hj]
      simp [newRows, List.drop_drop, Nat.add_comm]
    · -- the page continues the last row
      have ha := assembleObjects_frag h p hfv hfc hrows pre es suf hlen1
      have hj : joinPage (pre ++ [Row.list es]) p = pre ++ [Row.list (es ++ p.frag)] ++ p.rows := by
        simp [joinPage, extendLast_snoc]
      have hz' := zeros_gpage o maxDef p
      simp only [List.length_append, List.length_cons, List.length_nil, Nat.zero_add] at ha ⊢
      simp only [ha, bind, Except.bind, hz, if_true, hz']
      have := ih (pre ++ [Row.list (es ++ p.frag)] ++ p.rows) (suf.drop p.rows.length) (by rw [← hj]; exact hrest) hlen2
      simp only [List.length_append, List.length_cons, List.length_nil, Nat.zero_add] at this
      rw [this, hj]
      simp [newRows, List.drop_drop, Nat.add_comm]

/-- the specification over the same pages -/
theorem spec_pages (o maxDef : Nat) (hmd : o < maxDef) :
    ∀ (pages : List Page) (acc : List Row), PagesOk o maxDef acc pages →
      (pages.flatMap (·.entries o maxDef)).foldl (pushEntry o) acc = pages.foldl joinPage acc := by
  intro pages
  induction pages with
  | nil => intro acc _; simp
  | cons p ps ih =>
    intro acc hok
    obtain ⟨hcase, _, hrows, hrest⟩ := hok
    simp only [List.flatMap_cons, List.foldl_append, List.foldl_cons]
    rw [spec_page o maxDef hmd acc p (by rcases hcase with ⟨hf, _⟩ | ⟨_, hx⟩; exact Or.inl hf; exact Or.inr hx) hrows]
    exact ih _ hrest

/-- **refinement, partial**: for every way of cutting a chunk into pages in which each continuation
    carries a value, the model of `read_col` + `_assemble_objects` returns exactly record assembly
    of the whole entry stream. -/
theorem readChunk_refines_partial {o maxDef : Nat} {null : Bool} (h : Sch o maxDef null) (hz : PqV.Gen.Nested.chainByZeros = true)
    (pages : List Page) (hok : PagesOk o maxDef [] pages) :
    readChunk (newRows pages) null maxDef (pages.map (gpageOf o maxDef))
      = .ok (assemble o (pages.flatMap (·.entries o maxDef))) := by
  have h1 := readPages_general h hz pages [] (List.replicate (newRows pages) Row.none) hok (by simp)
  have h2 := spec_pages o maxDef h.md pages [] hok
  simp only [readChunk, assemble]
  simp only [List.nil_append, List.length_nil] at h1
  rw [h1, h2]
  simp

end PqV.Impl.Assemble
