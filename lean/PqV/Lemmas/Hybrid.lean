import PqV.Spec.Hybrid
import PqV.Lemmas.Varint
import PqV.Lemmas.Bits
import Mathlib.Tactic.Ring
/-! Round trip of the RLE / bit-packing hybrid at specification level: whatever mixture of runs a
conforming writer chooses, `decodeHybrid` returns the values the runs stand for. -/
namespace PqV.Spec

theorem encodeRuns_cons (w : Nat) (r : Run) (rs : List Run) :
    encodeRuns w (r :: rs) = encodeRun w r ++ encodeRuns w rs := by
  simp [encodeRuns]

theorem pow_le_256 (w : Nat) : 2 ^ w ≤ 256 ^ ((w + 7) / 8) := by
  have e : (256 : Nat) = 2 ^ 8 := by norm_num
  rw [e, ← Nat.pow_mul]
  exact Nat.pow_le_pow_right (by norm_num) (by omega)

/-- one RLE run is read back, whatever follows -/
theorem rle_step (w c v : Nat) (hv : v < 2 ^ w) (tail : List Nat) :
    uvarintDec (encodeRun w (.rle c v) ++ tail) = some (c * 2, leBytes ((w + 7) / 8) v ++ tail) ∧
    leNat ((leBytes ((w + 7) / 8) v ++ tail).take ((w + 7) / 8)) = v ∧
    (leBytes ((w + 7) / 8) v ++ tail).drop ((w + 7) / 8) = tail := by
  refine ⟨?_, ?_, ?_⟩
  · simp only [encodeRun, List.append_assoc]
    exact uvarint_rt _ _
  · rw [List.take_left' (leBytes_length _ _), leNat_leBytes]
    exact Nat.mod_eq_of_lt (Nat.lt_of_lt_of_le hv (pow_le_256 w))
  · exact List.drop_left' (leBytes_length _ _)

/-- one bit-packed run is read back, whatever follows -/
theorem bp_step (w : Nat) (vs : List Nat) (h8 : vs.length % 8 = 0) (hv : ∀ v ∈ vs, v < 2 ^ w)
    (tail : List Nat) :
    uvarintDec (encodeRun w (.bp vs) ++ tail) = some ((vs.length / 8) * 2 + 1, packLE w vs ++ tail) ∧
    unpackLE w ((vs.length / 8) * 8) ((packLE w vs ++ tail).take ((vs.length / 8) * w)) = vs ∧
    (packLE w vs ++ tail).drop ((vs.length / 8) * w) = tail := by
  have hlen : (packLE w vs).length = (vs.length / 8) * w := by
    rw [packLE_length]
    have h1 : vs.length = 8 * (vs.length / 8) := by omega
    generalize vs.length / 8 = g at *
    rw [h1]
    have : 8 * g * w + 7 = 8 * (g * w) + 7 := by ring
    rw [this]; omega
  refine ⟨?_, ?_, ?_⟩
  · simp only [encodeRun, List.append_assoc]
    exact uvarint_rt _ _
  · rw [List.take_left' hlen]
    have : vs.length / 8 * 8 = vs.length := by omega
    rw [this]
    exact unpackLE_packLE w vs hv
  · exact List.drop_left' hlen

theorem Run.wf_rle {w c v : Nat} (h : (Run.rle c v).wf w = true) : v < 2 ^ w := by
  simpa [Run.wf] using h

theorem Run.wf_bp {w : Nat} {vs : List Nat} (h : (Run.bp vs).wf w = true) :
    vs.length % 8 = 0 ∧ ∀ v ∈ vs, v < 2 ^ w := by
  simpa [Run.wf] using h

/-- the loop of `decodeHybrid` over a whole list of well-formed runs -/
theorem decodeHybridAux_runs (w : Nat) (rs : List Run) (hwf : ∀ r ∈ rs, r.wf w = true) :
    ∀ (fuel n : Nat) (tail acc : List Nat), rs.length < fuel →
      n ≤ acc.length + (rs.flatMap Run.values).length →
      (decodeHybridAux w fuel n (encodeRuns w rs ++ tail) acc).take n
        = (acc ++ rs.flatMap Run.values).take n := by
  induction rs with
  | nil =>
    intro fuel n tail acc hf hn
    obtain ⟨f, rfl⟩ : ∃ f, fuel = f + 1 := ⟨fuel - 1, by omega⟩
    have hn' : acc.length ≥ n := by simpa using hn
    simp [decodeHybridAux, hn', List.take_take]
  | cons r rs ih =>
    intro fuel n tail acc hf hn
    obtain ⟨f, rfl⟩ : ∃ f, fuel = f + 1 := ⟨fuel - 1, by omega⟩
    have hf' : rs.length < f := by simpa using hf
    have hwf' : ∀ r ∈ rs, r.wf w = true := fun r hr => hwf r (List.mem_cons_of_mem _ hr)
    unfold decodeHybridAux
    by_cases hacc : acc.length ≥ n
    · simp only [hacc, if_true, List.take_take, Nat.min_self]
      rw [List.take_append_of_le_length hacc]
    · simp only [hacc, if_false]
      rw [encodeRuns_cons, List.append_assoc]
      cases r with
      | rle c v =>
        have hv := Run.wf_rle (hwf _ (List.mem_cons_self))
        obtain ⟨h1, h2, h3⟩ := rle_step w c v hv (encodeRuns w rs ++ tail)
        simp only [h1]
        have hc : c * 2 % 2 = 0 := by omega
        have hc2 : c * 2 / 2 = c := by omega
        simp only [hc, if_true, h2, h3, hc2]
        rw [ih hwf' f n tail (acc ++ List.replicate c v) hf']
        · simp [Run.values, List.append_assoc]
        · simp only [List.flatMap_cons, Run.values, List.length_append, List.length_replicate] at hn ⊢
          omega
      | bp vs =>
        obtain ⟨h8, hv⟩ := Run.wf_bp (hwf _ (List.mem_cons_self))
        obtain ⟨h1, h2, h3⟩ := bp_step w vs h8 hv (encodeRuns w rs ++ tail)
        simp only [h1]
        have hc : (vs.length / 8 * 2 + 1) % 2 ≠ 0 := by omega
        have hc2 : (vs.length / 8 * 2 + 1) / 2 = vs.length / 8 := by omega
        simp only [hc, if_false, hc2, h2, h3]
        rw [ih hwf' f n tail (acc ++ vs) hf']
        · simp [Run.values, List.append_assoc]
        · simp only [List.flatMap_cons, Run.values, List.length_append] at hn ⊢
          omega

theorem encodeRun_length_pos (w : Nat) (r : Run) : 0 < (encodeRun w r).length := by
  cases r <;> simp only [encodeRun, List.length_append] <;>
    exact Nat.lt_of_lt_of_le (uvarintEnc_length_pos _) (Nat.le_add_right _ _)

theorem encodeRuns_length_ge (w : Nat) (rs : List Run) : rs.length ≤ (encodeRuns w rs).length := by
  induction rs with
  | nil => simp [encodeRuns]
  | cons r rs ih =>
    rw [encodeRuns_cons, List.length_append, List.length_cons]
    have := encodeRun_length_pos w r
    omega

/-- **Hybrid round trip**: any list of well-formed runs (any width, any mixture of RLE and bit-packed
    runs, any run lengths incl. empty ones), followed by arbitrary bytes, decodes to the first `n`
    values the runs stand for. -/
theorem decodeHybrid_encodeRuns (w n : Nat) (rs : List Run) (tail : List Nat)
    (hwf : ∀ r ∈ rs, r.wf w = true) (hn : n ≤ (rs.flatMap Run.values).length) :
    decodeHybrid w n (encodeRuns w rs ++ tail) = (rs.flatMap Run.values).take n := by
  unfold decodeHybrid
  have hf : rs.length < (encodeRuns w rs ++ tail).length + 1 := by
    have := encodeRuns_length_ge w rs
    simp only [List.length_append]; omega
  have := decodeHybridAux_runs w rs hwf _ n tail [] hf (by simpa using hn)
  simpa using this


/-- the framing check accepts every stream a conforming encoder can produce: all runs consumed are
    complete, whatever follows the stream -/
theorem hybridCompleteAux_runs (w : Nat) (rs : List Run) (hwf : ∀ r ∈ rs, r.wf w = true) :
    ∀ (fuel n : Nat) (tail : List Nat) (got : Nat), rs.length < fuel →
      n ≤ got + (rs.flatMap Run.values).length →
      hybridCompleteAux w fuel n (encodeRuns w rs ++ tail) got = true := by
  induction rs with
  | nil =>
    intro fuel n tail got hf hn
    obtain ⟨f, rfl⟩ : ∃ f, fuel = f + 1 := ⟨fuel - 1, by omega⟩
    have hn' : got ≥ n := by simpa using hn
    simp [hybridCompleteAux, hn']
  | cons r rs ih =>
    intro fuel n tail got hf hn
    obtain ⟨f, rfl⟩ : ∃ f, fuel = f + 1 := ⟨fuel - 1, by omega⟩
    have hf' : rs.length < f := by simpa using hf
    have hwf' : ∀ r ∈ rs, r.wf w = true := fun r hr => hwf r (List.mem_cons_of_mem _ hr)
    unfold hybridCompleteAux
    by_cases hacc : got ≥ n
    · simp only [hacc, if_true]
    · simp only [hacc, if_false]
      rw [encodeRuns_cons, List.append_assoc]
      cases r with
      | rle c v =>
        have hv := Run.wf_rle (hwf _ (List.mem_cons_self))
        obtain ⟨h1, _, h3⟩ := rle_step w c v hv (encodeRuns w rs ++ tail)
        simp only [h1]
        have hc : c * 2 % 2 = 0 := by omega
        have hc2 : c * 2 / 2 = c := by omega
        simp only [hc, if_true, h3, hc2]
        have hl : (w + 7) / 8 ≤ (leBytes ((w + 7) / 8) v ++ (encodeRuns w rs ++ tail)).length := by
          rw [List.length_append, leBytes_length]; omega
        simp only [hl, decide_true, Bool.true_and]
        apply ih hwf' f n tail (got + c) hf'
        simp only [List.flatMap_cons, Run.values, List.length_append, List.length_replicate] at hn ⊢
        omega
      | bp vs =>
        obtain ⟨h8, hv⟩ := Run.wf_bp (hwf _ (List.mem_cons_self))
        obtain ⟨h1, _, h3⟩ := bp_step w vs h8 hv (encodeRuns w rs ++ tail)
        simp only [h1]
        have hc : (vs.length / 8 * 2 + 1) % 2 ≠ 0 := by omega
        have hc2 : (vs.length / 8 * 2 + 1) / 2 = vs.length / 8 := by omega
        simp only [hc, if_false, hc2, h3]
        have hlen : (packLE w vs).length = (vs.length / 8) * w := by
          rw [packLE_length]
          have h1 : vs.length = 8 * (vs.length / 8) := by omega
          generalize vs.length / 8 = g at *
          rw [h1]
          have : 8 * g * w + 7 = 8 * (g * w) + 7 := by ring
          rw [this]; omega
        have hl : vs.length / 8 * w ≤ (packLE w vs ++ (encodeRuns w rs ++ tail)).length := by
          rw [List.length_append, hlen]; omega
        simp only [hl, decide_true, Bool.true_and]
        apply ih hwf' f n tail (got + vs.length / 8 * 8) hf'
        simp only [List.flatMap_cons, Run.values, List.length_append] at hn ⊢
        omega

/-- **no false alarm from the framing check**: any stream of well-formed runs holding at least `n`
    values is accepted by `hybridTight`, whatever bytes follow it. -/
theorem hybridTight_encodeRuns (w n : Nat) (rs : List Run) (tail : List Nat)
    (hwf : ∀ r ∈ rs, r.wf w = true) (hn : n ≤ (rs.flatMap Run.values).length) :
    hybridTight w n (encodeRuns w rs ++ tail) = true := by
  unfold hybridTight
  have hf : rs.length < (encodeRuns w rs ++ tail).length + 1 := by
    have := encodeRuns_length_ge w rs
    simp only [List.length_append]; omega
  exact hybridCompleteAux_runs w rs hwf _ n tail 0 hf (by simpa using hn)

/-- …and it does reject a run whose announced payload is cut: a bit-packed run of one group of
    8-bit values with 7 bytes behind the header -/
example : hybridTight 8 7 [3, 0, 1, 2, 0, 1, 2, 0] = false := by decide
example : hybridTight 8 7 [3, 0, 1, 2, 0, 1, 2, 0, 0] = true := by decide

end PqV.Spec
