/-
  Lemmas.SkipDef — the reader's shortcut over a null-free definition-level block (`skip_definition_bytes`, constants
  REGENERATED from core.py) steps over exactly the block `make_definitions` writes (layout REGENERATED from writer.py).
-/
import PqV.Impl.ReadPage
import PqV.Lemmas.Varint
namespace PqV.Impl
open PqV.Spec PqV.Gen.SkipDef

/-- bytes of the null-free definition-level block `make_definitions` writes for `num` rows
    (constants regenerated from writer.py): length prefix, varint(num << shift), the value byte -/
def blockLen (num : Nat) : Nat := lenPrefix + uvarintLen (num <<< shift) + 1

theorem uvarintLen_step (x : Nat) : uvarintLen x = if x < 128 then 1 else 1 + uvarintLen (x / 128) := by
  unfold uvarintLen
  conv => lhs; unfold uvarintEnc
  split <;> simp <;> omega

theorem varint_iters : ∀ (fuel m : Nat), m < fuel → uvarintLen m = 1 + iters 128 fuel (m / 128) := by
  intro fuel
  induction fuel with
  | zero => intro m h; omega
  | succ f ih =>
    intro m h
    rw [uvarintLen_step]
    by_cases hm : m < 128
    · have : m / 128 = 0 := by omega
      simp [hm, this, iters]
    · have hd : m / 128 ≠ 0 := by omega
      simp only [hm, if_false, iters, hd]
      rw [ih (m / 128) (by omega)]

theorem skipLen_eq_blockLen (num : Nat) : skipLen num = blockLen num := by
  simp only [skipLen, blockLen, base, step, shrink, div, lenPrefix, shift, Nat.shiftLeft_eq, Nat.pow_one, Nat.one_mul]
  rw [varint_iters (num * 2 + 1) (num * 2) (by omega)]
  have : num * 2 / 128 = num / 64 := by omega
  rw [this]
  have key : ∀ (f1 f2 n : Nat), n < f1 → n < f2 → iters 128 f1 n = iters 128 f2 n := by
    intro f1
    induction f1 with
    | zero => intro f2 n h; omega
    | succ f ih =>
      intro f2 n h1 h2
      obtain ⟨g, rfl⟩ : ∃ g, f2 = g + 1 := ⟨f2 - 1, by omega⟩
      simp only [iters]
      by_cases hn : n = 0
      · simp [hn]
      · simp only [hn, if_false]
        rw [ih g (n / 128) (by omega) (by omega)]
  rw [key (num + 1) (num * 2 + 1) (num / 64) (by omega) (by omega)]
  omega

end PqV.Impl
