import PqV.Impl.Footer
import PqV.Lemmas.Bits
/-! Lemmas for the in-place footer rewrite model. -/
namespace PqV.Impl.Footer
open PqV.Spec

theorem overlay_take (f : List Nat) (loc : Nat) (bs : List Nat) (h : loc ≤ f.length) :
    (overlay f loc bs).take loc = f.take loc := by
  unfold overlay
  rw [List.append_assoc, List.take_append_of_le_length (by simp [h])]
  simp [List.take_take]

theorem overlay_length (f : List Nat) (loc : Nat) (bs : List Nat) (h : loc ≤ f.length) :
    (overlay f loc bs).length = max f.length (loc + bs.length) := by
  unfold overlay
  simp [List.length_append, List.length_take, List.length_drop]
  omega

/-- when the written block reaches (or passes) the old end of file nothing old survives behind it -/
theorem overlay_covers (f : List Nat) (loc : Nat) (bs : List Nat) (h : f.length ≤ loc + bs.length) :
    overlay f loc bs = f.take loc ++ bs := by
  unfold overlay
  rw [List.drop_eq_nil_of_le h]; simp

theorem magic_length : magic.length = 4 := rfl

/-! ### key merge -/

theorem lookup_cons (p : List Nat × List Nat) (t : KV) (k : List Nat) :
    lookup (p :: t) k = (lookup t k).or (if p.1 == k then some p.2 else none) := by
  unfold lookup
  simp only [List.reverse_cons, List.find?_append, List.find?_cons, List.find?_nil]
  cases h : List.find? (fun x => x.1 == k) t.reverse <;> simp
  split <;> simp_all

theorem lookup_nil (k : List Nat) : lookup [] k = none := rfl

theorem lookup_none_of_not_mem (t : KV) (k : List Nat) (h : k ∉ t.map (·.1)) : lookup t k = none := by
  induction t with
  | nil => rfl
  | cons p t ih =>
    simp only [List.map_cons, List.mem_cons, not_or] at h
    rw [lookup_cons, ih h.2]
    have : ¬ (p.1 == k) = true := by simpa using fun e => h.1 e.symm
    simp [this]

theorem lookup_append_single (t : KV) (k' val k : List Nat) :
    lookup (t ++ [(k', val)]) k = if k' == k then some val else lookup t k := by
  unfold lookup
  simp only [List.reverse_append, List.reverse_cons, List.reverse_nil, List.nil_append,
    List.cons_append, List.find?_cons]
  split <;> simp_all

def eraseKey (k' : List Nat) : KV → KV
  | [] => []
  | p :: t => if p.1 == k' then t else p :: eraseKey k' t
def setKey (k' val : List Nat) : KV → KV
  | [] => []
  | p :: t => if p.1 == k' then (k', val) :: t else p :: setKey k' val t

theorem idx_some (kvm : KV) (k' : List Nat) (idx : Nat) (h : List.idxOf? k' (kvm.map (·.1)) = some idx) (val : List Nat) :
    kvm.eraseIdx idx = eraseKey k' kvm ∧ kvm.set idx (k', val) = setKey k' val kvm := by
  induction kvm generalizing idx with
  | nil => simp [List.idxOf?] at h
  | cons p t ih =>
    simp only [List.map_cons, List.idxOf?_cons] at h
    by_cases hp : (p.1 == k') = true
    · simp only [hp, if_true, Option.some.injEq] at h
      subst h
      simp [eraseKey, setKey, hp]
    · have hpf : (p.1 == k') = false := by simpa using hp
      simp only [hpf, Bool.false_eq_true, if_false] at h
      cases hi : List.idxOf? k' (t.map (·.1)) with
      | none => simp [hi] at h
      | some j =>
        simp only [hi, Option.map_some, Option.some.injEq] at h
        subst h
        have := ih j hi
        simp [eraseKey, setKey, hpf, this.1, this.2]

theorem idx_none (kvm : KV) (k' : List Nat) (h : List.idxOf? k' (kvm.map (·.1)) = none) :
    k' ∉ kvm.map (·.1) := by
  induction kvm with
  | nil => simp
  | cons p t ih =>
    simp only [List.map_cons, List.idxOf?_cons] at h
    by_cases hp : (p.1 == k') = true
    · simp [hp] at h
    · have hpf : (p.1 == k') = false := by simpa using hp
      simp only [hpf, Bool.false_eq_true, if_false, Option.map_eq_none_iff] at h
      have := ih h
      simp only [List.map_cons, List.mem_cons, not_or]
      exact ⟨by simpa using fun e => hp (by simpa using e.symm), this⟩

theorem lookup_eraseKey (kvm : KV) (k' k : List Nat) (hnd : (kvm.map (·.1)).Nodup) :
    lookup (eraseKey k' kvm) k = if k = k' then none else lookup kvm k := by
  induction kvm with
  | nil => simp [eraseKey, lookup_nil]
  | cons p t ih =>
    simp only [List.map_cons, List.nodup_cons] at hnd
    by_cases hp : p.1 = k'
    · simp only [eraseKey, hp, beq_self_eq_true, if_true]
      have hnotin : k' ∉ t.map (·.1) := hp ▸ hnd.1
      by_cases hk : k = k'
      · subst hk; simp [lookup_none_of_not_mem t k hnotin]
      · have : ¬ k' = k := fun h => hk h.symm
        simp [hk, lookup_cons, hp, this]
    · have hb : (p.1 == k') = false := by simpa using hp
      simp only [eraseKey, hb, Bool.false_eq_true, if_false]
      rw [lookup_cons, ih hnd.2, lookup_cons]
      by_cases hk : k = k'
      · subst hk; simp [hb]
      · simp [hk]

theorem lookup_setKey (kvm : KV) (k' val k : List Nat) (hnd : (kvm.map (·.1)).Nodup) (hin : k' ∈ kvm.map (·.1)) :
    lookup (setKey k' val kvm) k = if k = k' then some val else lookup kvm k := by
  induction kvm with
  | nil => simp at hin
  | cons p t ih =>
    simp only [List.map_cons, List.nodup_cons] at hnd
    by_cases hp : p.1 = k'
    · simp only [setKey, hp, beq_self_eq_true, if_true]
      have hnotin : k' ∉ t.map (·.1) := hp ▸ hnd.1
      by_cases hk : k = k'
      · subst hk; simp [lookup_cons, lookup_none_of_not_mem t k hnotin]
      · have : ¬ k' = k := fun h => hk h.symm
        simp [hk, lookup_cons, hp, this]
    · have hb : (p.1 == k') = false := by simpa using hp
      simp only [setKey, hb, Bool.false_eq_true, if_false]
      have hin' : k' ∈ t.map (·.1) := by
        simp only [List.map_cons, List.mem_cons] at hin
        rcases hin with h | h
        · exact absurd h.symm hp
        · exact h
      rw [lookup_cons, ih hnd.2 hin', lookup_cons]
      by_cases hk : k = k'
      · subst hk; simp
      · simp [hk]

theorem merge_one_lookup (kvm : KV) (u : List Nat × Option (List Nat)) (hnd : (kvm.map (·.1)).Nodup) (k : List Nat) :
    lookup (merge kvm [u]) k = specStep (lookup kvm) u k := by
  obtain ⟨k', v⟩ := u
  unfold merge
  simp only [List.foldl_cons, List.foldl_nil, mergeStep, specStep]
  cases hidx : List.idxOf? k' (kvm.map (·.1)) with
  | none =>
    have hnotin := idx_none kvm k' hidx
    cases v with
    | none =>
      by_cases hk : k = k'
      · subst hk; simp [lookup_none_of_not_mem kvm k hnotin]
      · simp [hk]
    | some val =>
      simp only [lookup_append_single]
      by_cases hk : k = k'
      · subst hk; simp
      · have : ¬ k' = k := fun h => hk h.symm
        simp [hk, this]
  | some idx =>
    have hin : k' ∈ kvm.map (·.1) := by
      by_contra hc
      have : List.idxOf? k' (kvm.map (·.1)) = none := by
        rw [List.idxOf?, List.findIdx?_eq_none_iff]
        intro x hx
        have : x ≠ k' := fun e => hc (e ▸ hx)
        simpa using this
      rw [this] at hidx; cases hidx
    cases v with
    | none =>
      simp only [(idx_some kvm k' idx hidx []).1]
      exact lookup_eraseKey kvm k' k hnd
    | some val =>
      simp only [(idx_some kvm k' idx hidx val).2]
      exact lookup_setKey kvm k' val k hnd hin


end PqV.Impl.Footer
