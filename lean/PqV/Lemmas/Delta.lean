import PqV.Spec.Delta
import PqV.Lemmas.Varint
import PqV.Lemmas.Bits
import Mathlib.Tactic.Ring
namespace PqV.Spec

/-- reduce into the signed range of `bits` bits -/
def wrapSg (bits : Nat) (x : Int) : Int := toSigned bits (ofSigned bits x)

def inRange (bits : Nat) (x : Int) : Prop := -(2 ^ (bits - 1) : Nat) ≤ x ∧ x < (2 ^ (bits - 1) : Nat)

theorem two_pow_split (bits : Nat) (hb : 1 ≤ bits) : (2 : Nat) ^ bits = 2 * 2 ^ (bits - 1) := by
  have : bits = (bits - 1) + 1 := by omega
  conv => lhs; rw [this, Nat.pow_succ]
  ring

theorem wrapSg_form (bits : Nat) (x : Int) :
    wrapSg bits x = if x % ((2 ^ bits : Nat) : Int) < ((2 ^ (bits - 1) : Nat) : Int) then x % ((2 ^ bits : Nat) : Int)
      else x % ((2 ^ bits : Nat) : Int) - ((2 ^ bits : Nat) : Int) := by
  unfold wrapSg toSigned ofSigned
  have hM : (0 : Int) < ((2 ^ bits : Nat) : Int) := by exact_mod_cast Nat.two_pow_pos bits
  have hnn := Int.emod_nonneg x (ne_of_gt hM)
  have hlt := Int.emod_lt_of_pos x hM
  have htn : ((x % ((2 ^ bits : Nat) : Int)).toNat : Int) = x % ((2 ^ bits : Nat) : Int) := Int.toNat_of_nonneg hnn
  have hmod : (x % ((2 ^ bits : Nat) : Int)).toNat % 2 ^ bits = (x % ((2 ^ bits : Nat) : Int)).toNat := by
    apply Nat.mod_eq_of_lt
    have : ((x % ((2 ^ bits : Nat) : Int)).toNat : Int) < ((2 ^ bits : Nat) : Int) := by rw [htn]; exact hlt
    exact_mod_cast this
  rw [hmod]
  by_cases h : (x % ((2 ^ bits : Nat) : Int)).toNat < 2 ^ (bits - 1)
  · have h' : x % ((2 ^ bits : Nat) : Int) < ((2 ^ (bits - 1) : Nat) : Int) := by rw [← htn]; exact_mod_cast h
    simp only [h, if_true, h', htn]
  · have h' : ¬ (x % ((2 ^ bits : Nat) : Int) < ((2 ^ (bits - 1) : Nat) : Int)) := by
      rw [← htn]; intro hc; exact h (by exact_mod_cast hc)
    simp only [h, if_false, h', htn]

/-- `wrapSg x` is the representative of `x` modulo 2^bits in the signed range -/
theorem wrapSg_eq_of_mod (bits : Nat) (hb : 1 ≤ bits) (x y : Int) (hy : inRange bits y)
    (hxy : x % ((2 ^ bits : Nat) : Int) = y % ((2 ^ bits : Nat) : Int)) : wrapSg bits x = y := by
  rw [wrapSg_form, hxy]
  have hsplit := two_pow_split bits hb
  obtain ⟨h1, h2⟩ := hy
  generalize hH : ((2 ^ (bits - 1) : Nat) : Int) = H at *
  have hM : ((2 ^ bits : Nat) : Int) = 2 * H := by rw [← hH]; exact_mod_cast hsplit
  have hHpos : 0 < H := by rw [← hH]; exact_mod_cast Nat.two_pow_pos (bits - 1)
  rw [hM]
  by_cases hy0 : 0 ≤ y
  · have : y % (2 * H) = y := Int.emod_eq_of_lt hy0 (by omega)
    rw [this]; simp [h2]
  · have : y % (2 * H) = y + 2 * H := by
      have := Int.emod_emod_of_dvd y (dvd_refl (2 * H))
      have e : (y + 2 * H) % (2 * H) = y % (2 * H) := by simp
      rw [← e]; exact Int.emod_eq_of_lt (by omega) (by omega)
    rw [this]
    have : ¬ (y + 2 * H < H) := by omega
    simp [this]

theorem wrapSg_mod (bits : Nat) (x : Int) : wrapSg bits x % ((2 ^ bits : Nat) : Int) = x % ((2 ^ bits : Nat) : Int) := by
  rw [wrapSg_form]
  split
  · exact Int.emod_emod_of_dvd x (dvd_refl _)
  · rw [Int.sub_emod, Int.emod_self, Int.sub_zero, Int.emod_emod_of_dvd _ (dvd_refl _), Int.emod_emod_of_dvd _ (dvd_refl _)]

theorem wrapSg_inRange (bits : Nat) (hb : 1 ≤ bits) (x : Int) : inRange bits (wrapSg bits x) := by
  rw [wrapSg_form]
  have hsplit := two_pow_split bits hb
  have hMpos : (0 : Int) < ((2 ^ bits : Nat) : Int) := by exact_mod_cast Nat.two_pow_pos bits
  have hnn := Int.emod_nonneg x (ne_of_gt hMpos)
  have hlt := Int.emod_lt_of_pos x hMpos
  unfold inRange
  generalize hH : ((2 ^ (bits - 1) : Nat) : Int) = H at *
  have hM : ((2 ^ bits : Nat) : Int) = 2 * H := by rw [← hH]; exact_mod_cast hsplit
  rw [hM] at hnn hlt ⊢
  split <;> constructor <;> omega

theorem wrapSg_id (bits : Nat) (hb : 1 ≤ bits) (v : Int) (hv : inRange bits v) : wrapSg bits v = v :=
  wrapSg_eq_of_mod bits hb v v hv rfl

/-- reconstruction step: adding the wrapped difference brings back the next value -/
theorem wrapSg_step (bits : Nat) (hb : 1 ≤ bits) (a b : Int) (hbr : inRange bits b) :
    wrapSg bits (a + wrapSg bits (b - a)) = b := by
  apply wrapSg_eq_of_mod bits hb _ _ hbr
  rw [Int.add_emod, wrapSg_mod, ← Int.add_emod]
  congr 1; ring

theorem range_map_getElem? {α β} (l : List α) (n : Nat) (h : l.length ≤ n) (f : Option α → β) :
    (List.range n).map (fun i => f l[i]?) = l.map (fun a => f (some a)) ++ List.replicate (n - l.length) (f none) := by
  apply List.ext_getElem?
  intro i
  by_cases hi : i < n
  · by_cases hil : i < l.length
    · simp [hi, hil, List.getElem?_append_left]
    · have hge : l.length ≤ i := by omega
      rw [List.getElem?_append_right (by simpa using hge)]
      simp [hi, hge, List.getElem?_eq_none_iff.mpr hge, List.getElem?_replicate]
  · have : n ≤ i := by omega
    rw [List.getElem?_eq_none_iff.mpr (by simpa using this), List.getElem?_eq_none_iff.mpr (by simp; omega)]

theorem flatMap_congr' {α β} (l : List α) (f g : α → List β) (h : ∀ a ∈ l, f a = g a) : l.flatMap f = l.flatMap g := by
  induction l with
  | nil => rfl
  | cons x xs ih =>
    simp only [List.flatMap_cons, h x (List.mem_cons_self), ih (fun a ha => h a (List.mem_cons_of_mem _ ha))]

theorem range_flatMap_getElem? {α β} (l : List α) (n : Nat) (h : l.length ≤ n) (f : Nat → Option α → List β)
    (hnone : ∀ i, f i none = []) :
    (List.range n).flatMap (fun i => f i l[i]?) = (l.zipIdx).flatMap (fun p => f p.2 (some p.1)) := by
  induction n generalizing l with
  | zero =>
    have : l = [] := by simpa using h
    subst this; simp
  | succ n ih =>
    rw [List.range_succ, List.flatMap_append]
    by_cases hl : l.length ≤ n
    · rw [ih l hl]
      simp [List.getElem?_eq_none_iff.mpr hl, hnone]
    · have hlen : l.length = n + 1 := by omega
      obtain ⟨init, x, rfl⟩ : ∃ init x, l = init ++ [x] := ⟨l.dropLast, l.getLast (by intro hc; simp [hc] at hlen),
        (List.dropLast_concat_getLast _).symm⟩
      have hin : init.length = n := by simpa using hlen
      have h1 : (List.range n).flatMap (fun i => f i (init ++ [x])[i]?) = (List.range n).flatMap (fun i => f i init[i]?) := by
        apply flatMap_congr'
        intro i hi
        have : i < init.length := by simpa [hin] using hi
        rw [List.getElem?_append_left this]
      rw [h1, ih init (by omega)]
      simp [List.zipIdx_append, hin]

/-- bit length: `n < 2^(bitLen n)` -/
theorem lt_two_pow_bitLen (n : Nat) : n < 2 ^ bitLen n := by
  cases n with
  | zero => simp [bitLen]
  | succ m =>
    simp only [bitLen]
    exact Nat.lt_log2_self


def widthOf (bits extra : Nat) (m : List Nat) : Nat := min bits (bitLen (m.foldl max 0) + extra)
def packMini (vpm w : Nat) (m : List Nat) : List Nat :=
  leBytes (vpm * w / 8) (packNat w (m ++ List.replicate (vpm - m.length) 0))

theorem foldl_max_ge (m : List Nat) (a x : Nat) (hx : x ∈ m ∨ x ≤ a) : x ≤ m.foldl max a := by
  induction m generalizing a with
  | nil => simpa using hx
  | cons y ys ih =>
    simp only [List.foldl_cons]
    apply ih
    rcases hx with hx | hx
    · rcases List.mem_cons.mp hx with rfl | h
      · right; exact Nat.le_max_right _ _
      · left; exact h
    · right; exact Nat.le_trans hx (Nat.le_max_left _ _)

theorem bitLen_mono (a b : Nat) (h : a ≤ b) : a < 2 ^ bitLen b :=
  Nat.lt_of_le_of_lt h (lt_two_pow_bitLen b)

theorem lt_pow_widthOf (bits extra : Nat) (m : List Nat) (x : Nat) (hx : x ∈ m) (hb : x < 2 ^ bits) :
    x < 2 ^ widthOf bits extra m := by
  unfold widthOf
  have h1 : x < 2 ^ bitLen (m.foldl max 0) := bitLen_mono _ _ (foldl_max_ge m 0 x (Or.inl hx))
  have h2 : 2 ^ bitLen (m.foldl max 0) ≤ 2 ^ (bitLen (m.foldl max 0) + extra) := Nat.pow_le_pow_right (by norm_num) (by omega)
  rcases Nat.le_total bits (bitLen (m.foldl max 0) + extra) with h | h
  · rw [Nat.min_eq_left h]; exact hb
  · rw [Nat.min_eq_right h]; omega

theorem mini_unpack (vpm w : Nat) (m : List Nat) (hlen : m.length ≤ vpm) (h8 : vpm % 8 = 0) (hv : ∀ x ∈ m, x < 2 ^ w) :
    unpackLE w vpm (packMini vpm w m) = m ++ List.replicate (vpm - m.length) 0 := by
  set padded := m ++ List.replicate (vpm - m.length) 0 with hp
  have hpl : padded.length = vpm := by simp [hp]; omega
  have hall : ∀ x ∈ padded, x < 2 ^ w := by
    intro x hx
    rcases List.mem_append.mp hx with h | h
    · exact hv x h
    · have : x = 0 := (List.mem_replicate.mp h).2
      subst this; exact Nat.two_pow_pos w
  have hbytes : vpm * w / 8 = (padded.length * w + 7) / 8 := by
    rw [hpl]
    obtain ⟨q, hq⟩ : ∃ q, vpm = 8 * q := ⟨vpm / 8, by omega⟩
    rw [hq]
    have : 8 * q * w = 8 * (q * w) := by ring
    rw [this]; omega
  have : packMini vpm w m = packLE w padded := by
    unfold packMini packLE
    rw [hbytes]
  rw [this]
  have := unpackLE_packLE w padded hall
  rw [hpl] at this
  exact this

theorem packMini_length (vpm w : Nat) (m : List Nat) : (packMini vpm w m).length = vpm * w / 8 := by
  simp [packMini, leBytes_length]

/-- reconstruction of values from relative deltas -/
def reconRel (bits : Nat) (minD : Int) : Int → List Nat → List Int
  | _, [] => []
  | last, d :: ds => wrapSg bits (last + minD + (d : Int)) :: reconRel bits minD (wrapSg bits (last + minD + (d : Int))) ds
def lastAfter (bits : Nat) (minD : Int) : Int → List Nat → Int
  | last, [] => last
  | last, d :: ds => lastAfter bits minD (wrapSg bits (last + minD + (d : Int))) ds

theorem reconRel_append (bits : Nat) (minD : Int) (a b : List Nat) (last : Int) :
    reconRel bits minD last (a ++ b) = reconRel bits minD last a ++ reconRel bits minD (lastAfter bits minD last a) b := by
  induction a generalizing last with
  | nil => rfl
  | cons d ds ih => simp [reconRel, lastAfter, ih]

theorem lastAfter_append (bits : Nat) (minD : Int) (a b : List Nat) (last : Int) :
    lastAfter bits minD last (a ++ b) = lastAfter bits minD (lastAfter bits minD last a) b := by
  induction a generalizing last with
  | nil => rfl
  | cons d ds ih => simp [lastAfter, ih]

theorem fold_recon (bits : Nat) (minD : Int) (rels : List Nat) (acc : List Int) (last : Int) :
    rels.foldl (fun (p : List Int × Int) (d : Nat) =>
        let v := toSigned bits (ofSigned bits (p.2 + minD + (d : Int)))
        (p.1 ++ [v], v)) (acc, last)
      = (acc ++ reconRel bits minD last rels, lastAfter bits minD last rels) := by
  induction rels generalizing acc last with
  | nil => simp [reconRel, lastAfter]
  | cons d ds ih =>
    simp only [List.foldl_cons]
    rw [ih]
    simp [reconRel, lastAfter, wrapSg]


theorem chunk_cons {α} (k fuel : Nat) (l : List α) (hl : l ≠ []) (hk : k ≠ 0) :
    chunk k (fuel + 1) l = l.take k :: chunk k fuel (l.drop k) := by
  simp [chunk, hl, hk]

theorem chunk_nil {α} (k fuel : Nat) : chunk k fuel ([] : List α) = [] := by
  cases fuel <;> simp [chunk]

/-- the miniblocks of one block are decoded back to the relative deltas -/
theorem deltaMinis_chunks (bits extra vpm : Nat) (minD : Int) (hvpm : 0 < vpm) (h8 : vpm % 8 = 0) :
    ∀ (fuel : Nat) (rel : List Nat) (need z : Nat) (last : Int) (acc : List Int) (tail : List Nat),
      rel.length ≤ fuel → (∀ x ∈ rel, x < 2 ^ bits) →
      (need = rel.length ∨ (z = 0 ∧ rel.length % vpm = 0 ∧ rel.length ≤ need)) →
      deltaMinis bits vpm minD
          ((chunk vpm fuel rel).map (widthOf bits extra) ++ List.replicate z 0)
          ((chunk vpm fuel rel).flatMap (fun m => packMini vpm (widthOf bits extra m) m) ++ tail) need last acc
        = (acc ++ reconRel bits minD last rel, lastAfter bits minD last rel, need - rel.length, tail) := by
  intro fuel
  induction fuel with
  | zero =>
    intro rel need z last acc tail hlen _ hneed
    have : rel = [] := by simpa using hlen
    subst this
    simp only [chunk, List.map_nil, List.nil_append, List.flatMap_nil, reconRel, lastAfter, List.append_nil,
      List.length_nil, Nat.sub_zero]
    rcases hneed with h | ⟨hz, _, _⟩
    · simp only [List.length_nil] at h; subst h
      cases z with
      | zero => simp [deltaMinis]
      | succ z' => simp [List.replicate_succ, deltaMinis]
    · subst hz; simp [deltaMinis]
  | succ f ih =>
    intro rel need z last acc tail hlen hb hneed
    by_cases hnil : rel = []
    · subst hnil
      simp only [chunk_nil, List.map_nil, List.nil_append, List.flatMap_nil, reconRel, lastAfter, List.append_nil,
        List.length_nil, Nat.sub_zero]
      rcases hneed with h | ⟨hz, _, _⟩
      · simp only [List.length_nil] at h; subst h
        cases z with
        | zero => simp [deltaMinis]
        | succ z' => simp [List.replicate_succ, deltaMinis]
      · subst hz; simp [deltaMinis]
    · have hpos : 0 < rel.length := List.length_pos_iff.mpr hnil
      rw [chunk_cons vpm f rel hnil (by omega)]
      set m := rel.take vpm with hm
      set rest := rel.drop vpm with hrest
      have hmlen : m.length = min vpm rel.length := by simp [hm]
      have hrel : rel = m ++ rest := by simp [hm, hrest]
      have hneedpos : need ≠ 0 := by rcases hneed with h | ⟨_, _, h⟩ <;> omega
      have hmv : ∀ x ∈ m, x < 2 ^ widthOf bits extra m := fun x hx =>
        lt_pow_widthOf bits extra m x hx (hb x (List.mem_of_mem_take hx))
      have hmle : m.length ≤ vpm := by rw [hmlen]; exact Nat.min_le_left _ _
      -- how many values the decoder takes from this miniblock: exactly its real length
      have htake : min need vpm = m.length := by
        rcases hneed with h | ⟨_, hdiv, hle⟩
        · rw [hmlen, h]; exact Nat.min_comm _ _
        · have : vpm ≤ rel.length := by
            rcases Nat.lt_or_ge rel.length vpm with hlt | hge
            · have := Nat.mod_eq_of_lt hlt; omega
            · exact hge
          rw [hmlen]; omega
      simp only [List.map_cons, List.cons_append, List.flatMap_cons, List.append_assoc, deltaMinis, hneedpos, if_false]
      have hl := packMini_length vpm (widthOf bits extra m) m
      rw [List.take_left' hl, List.drop_left' hl, mini_unpack vpm _ m hmle h8 hmv, htake, List.take_left' rfl, fold_recon]
      simp only
      have hrestlen : rest.length = rel.length - m.length := by
        rw [hrel, List.length_append]; omega
      have := ih rest (need - m.length) z (lastAfter bits minD last m) (acc ++ reconRel bits minD last m) tail
        (by rw [hrestlen]; omega) (fun x hx => hb x (List.mem_of_mem_drop hx))
        (by
          rcases hneed with h | ⟨hz, hdiv, hle⟩
          · left; rw [hrestlen, h]
          · right
            refine ⟨hz, ?_, by rw [hrestlen]; omega⟩
            have hvle : vpm ≤ rel.length := by
              rcases Nat.lt_or_ge rel.length vpm with hlt | hge
              · have := Nat.mod_eq_of_lt hlt; omega
              · exact hge
            have hml : m.length = vpm := by rw [hmlen]; omega
            rw [hrestlen, hml]
            have : (rel.length - vpm) % vpm = rel.length % vpm := by
              conv => rhs; rw [show rel.length = (rel.length - vpm) + vpm by omega]
              simp
            omega)
      rw [this]
      conv => rhs; rw [hrel]
      simp only [reconRel_append, lastAfter_append, List.append_assoc, List.length_append]
      rw [Nat.sub_sub]


/-- the encoder's block (same text as the lambda inside `encodeDelta`) -/
def encBlock (bits : Nat) (sh : DeltaShape) (blk : List Int) : List Nat :=
  let vpm := sh.blockSize / sh.mpb
  let minD : Int := blk.foldl min (blk.headD 0)
  let rel : List Nat := blk.map fun d => ofSigned bits (d - minD)
  let minis := chunk vpm (rel.length + 1) rel
  let widths := (List.range sh.mpb).map fun i =>
    match minis[i]? with
    | none => 0
    | some m => min bits (bitLen (m.foldl max 0) + sh.extraWidth)
  let packed := (List.range sh.mpb).flatMap fun i =>
    match minis[i]? with
    | none => []
    | some m =>
      let w := widths.getD i 0
      let padded := m ++ List.replicate (vpm - m.length) 0
      leBytes (vpm * w / 8) (packNat w padded)
  uvarintEnc (zigzagEnc minD) ++ widths ++ packed

theorem chunk_length_le {α} (k : Nat) (hk : 0 < k) : ∀ (fuel : Nat) (l : List α) (n : Nat), l.length ≤ n * k →
    (chunk k fuel l).length ≤ n := by
  intro fuel
  induction fuel with
  | zero => intro l n _; simp [chunk]
  | succ f ih =>
    intro l n h
    by_cases hl : l = []
    · subst hl; simp [chunk]
    · rw [chunk_cons k f l hl (by omega)]
      have hpos : 0 < l.length := List.length_pos_iff.mpr hl
      cases n with
      | zero => exfalso; have : l.length ≤ 0 := by simpa using h
                omega
      | succ n' =>
        have h' : l.length ≤ n' * k + k := by rw [Nat.add_mul, Nat.one_mul] at h; exact h
        simp only [List.length_cons, Nat.add_le_add_iff_right]
        apply ih
        simp only [List.length_drop]
        omega

theorem chunk_length_full {α} (k : Nat) (hk : 0 < k) : ∀ (fuel : Nat) (l : List α) (n : Nat), l.length = n * k → l.length ≤ fuel →
    (chunk k fuel l).length = n := by
  intro fuel
  induction fuel with
  | zero =>
    intro l n h hf
    have hn : n = 0 := by
      rcases Nat.eq_zero_or_pos n with h0 | hp
      · exact h0
      · have := Nat.mul_pos hp hk; omega
    subst hn; simp [chunk]
  | succ f ih =>
    intro l n h hf
    by_cases hl : l = []
    · subst hl
      have hn : n = 0 := by
        rcases Nat.eq_zero_or_pos n with h0 | hp
        · exact h0
        · have := Nat.mul_pos hp hk; simp at h; omega
      subst hn; simp [chunk]
    · rw [chunk_cons k f l hl (by omega)]
      have hpos : 0 < l.length := List.length_pos_iff.mpr hl
      cases n with
      | zero => exfalso; have : l.length = 0 := by simpa using h
                omega
      | succ n' =>
        have h' : l.length = n' * k + k := by rw [Nat.add_mul, Nat.one_mul] at h; exact h
        simp only [List.length_cons, Nat.add_right_cancel_iff]
        apply ih
        · simp only [List.length_drop]; omega
        · simp only [List.length_drop]; omega

theorem zipIdx_flatMap_fst {α β} (h : α → List β) : ∀ (l : List α) (n : Nat),
    (l.zipIdx n).flatMap (fun p => h p.1) = l.flatMap h := by
  intro l
  induction l with
  | nil => intro n; simp
  | cons x xs ih => intro n; simp [List.zipIdx_cons, ih]


def blockMin (blk : List Int) : Int := blk.foldl min (blk.headD 0)
def blockRel (bits : Nat) (blk : List Int) : List Nat := blk.map fun d => ofSigned bits (d - blockMin blk)

theorem encBlock_form (bits : Nat) (sh : DeltaShape) (blk : List Int)
    (hk : (chunk (sh.blockSize / sh.mpb) ((blockRel bits blk).length + 1) (blockRel bits blk)).length ≤ sh.mpb) :
    encBlock bits sh blk =
      uvarintEnc (zigzagEnc (blockMin blk)) ++
      ((chunk (sh.blockSize / sh.mpb) ((blockRel bits blk).length + 1) (blockRel bits blk)).map (widthOf bits sh.extraWidth) ++
        List.replicate (sh.mpb - (chunk (sh.blockSize / sh.mpb) ((blockRel bits blk).length + 1) (blockRel bits blk)).length) 0) ++
      (chunk (sh.blockSize / sh.mpb) ((blockRel bits blk).length + 1) (blockRel bits blk)).flatMap
        (fun m => packMini (sh.blockSize / sh.mpb) (widthOf bits sh.extraWidth m) m) := by
  unfold encBlock
  simp only
  set vpm := sh.blockSize / sh.mpb
  have hrel : (blk.map fun d => ofSigned bits (d - blk.foldl min (blk.headD 0))) = blockRel bits blk := rfl
  rw [hrel]
  set minis := chunk vpm ((blockRel bits blk).length + 1) (blockRel bits blk) with hminis
  have hw := range_map_getElem? minis sh.mpb hk
    (fun o => match o with | none => 0 | some m => min bits (bitLen (m.foldl max 0) + sh.extraWidth))
  simp only at hw
  have hw' : (List.range sh.mpb).map (fun i => match minis[i]? with
        | none => 0
        | some m => min bits (bitLen (m.foldl max 0) + sh.extraWidth))
      = minis.map (widthOf bits sh.extraWidth) ++ List.replicate (sh.mpb - minis.length) 0 := by
    rw [hw]; rfl
  rw [hw']
  congr 1
  -- the packed bytes
  set widths := minis.map (widthOf bits sh.extraWidth) ++ List.replicate (sh.mpb - minis.length) 0 with hwid
  have hp := range_flatMap_getElem? minis sh.mpb hk
    (fun i o => match o with
      | none => []
      | some m => leBytes (vpm * (widths.getD i 0) / 8) (packNat (widths.getD i 0) (m ++ List.replicate (vpm - m.length) 0)))
    (by intro i; rfl)
  simp only at hp
  rw [hp]
  rw [← zipIdx_flatMap_fst (fun m => packMini vpm (widthOf bits sh.extraWidth m) m) minis 0]
  apply flatMap_congr'
  intro p hp'
  obtain ⟨m, i⟩ := p
  have hmem := List.mem_zipIdx hp'
  simp only [Nat.zero_add, Nat.sub_zero] at hmem
  obtain ⟨_, hi, hget⟩ := hmem
  have hwi : widths.getD i 0 = widthOf bits sh.extraWidth m := by
    rw [hwid, List.getD_eq_getElem?_getD, List.getElem?_append_left (by simpa using hi)]
    simp [hget, List.getElem?_eq_getElem hi]
  simp only [hwi, packMini]


def recon (bits : Nat) : Int → List Int → List Int
  | _, [] => []
  | last, d :: ds => wrapSg bits (last + d) :: recon bits (wrapSg bits (last + d)) ds
def lastV (bits : Nat) : Int → List Int → Int
  | last, [] => last
  | last, d :: ds => lastV bits (wrapSg bits (last + d)) ds

theorem recon_append (bits : Nat) (a b : List Int) (last : Int) :
    recon bits last (a ++ b) = recon bits last a ++ recon bits (lastV bits last a) b := by
  induction a generalizing last with
  | nil => rfl
  | cons d ds ih => simp [recon, lastV, ih]

theorem lastV_append (bits : Nat) (a b : List Int) (last : Int) :
    lastV bits last (a ++ b) = lastV bits (lastV bits last a) b := by
  induction a generalizing last with
  | nil => rfl
  | cons d ds ih => simp [lastV, ih]

theorem foldl_min_le (l : List Int) (a : Int) : ∀ x, (x ∈ l ∨ x = a) → l.foldl min a ≤ x := by
  induction l generalizing a with
  | nil =>
    intro x hx
    rcases hx with h | h
    · cases h
    · subst h; exact Int.le_refl _
  | cons y ys ih =>
    intro x hx
    simp only [List.foldl_cons]
    rcases hx with hx | hx
    · rcases List.mem_cons.mp hx with rfl | h
      · exact Int.le_trans (ih (min a x) (min a x) (Or.inr rfl)) (Int.min_le_right _ _)
      · exact ih _ x (Or.inl h)
    · subst hx
      exact Int.le_trans (ih (min x y) (min x y) (Or.inr rfl)) (Int.min_le_left _ _)

theorem foldl_min_mem (l : List Int) (a : Int) : l.foldl min a ∈ l ∨ l.foldl min a = a := by
  induction l generalizing a with
  | nil => right; rfl
  | cons y ys ih =>
    simp only [List.foldl_cons]
    rcases ih (min a y) with h | h
    · left; exact List.mem_cons_of_mem _ h
    · rw [h]
      rcases Int.le_total a y with hle | hle
      · right; exact Int.min_eq_left hle
      · left; rw [Int.min_eq_right hle]; exact List.mem_cons_self

theorem blockMin_props (blk : List Int) (hne : blk ≠ []) :
    blockMin blk ∈ blk ∧ ∀ d ∈ blk, blockMin blk ≤ d := by
  unfold blockMin
  obtain ⟨x, xs, rfl⟩ : ∃ x xs, blk = x :: xs := by
    cases blk with
    | nil => exact absurd rfl hne
    | cons x xs => exact ⟨x, xs, rfl⟩
  simp only [List.headD_cons]
  constructor
  · rcases foldl_min_mem (x :: xs) x with h | h
    · exact h
    · rw [h]; exact List.mem_cons_self
  · intro d hd
    exact foldl_min_le (x :: xs) x d (Or.inl hd)

theorem ofSigned_small (bits : Nat) (i : Int) (h0 : 0 ≤ i) (h1 : i < ((2 ^ bits : Nat) : Int)) :
    ((ofSigned bits i : Nat) : Int) = i ∧ ofSigned bits i < 2 ^ bits := by
  unfold ofSigned
  rw [Int.emod_eq_of_lt h0 h1]
  constructor
  · exact Int.toNat_of_nonneg h0
  · have : ((i.toNat : Nat) : Int) < ((2 ^ bits : Nat) : Int) := by rw [Int.toNat_of_nonneg h0]; exact h1
    exact_mod_cast this

theorem rel_facts (bits : Nat) (hb : 1 ≤ bits) (blk : List Int) (hne : blk ≠ []) (hr : ∀ d ∈ blk, inRange bits d) :
    ∀ d ∈ blk, ((ofSigned bits (d - blockMin blk) : Nat) : Int) = d - blockMin blk ∧ ofSigned bits (d - blockMin blk) < 2 ^ bits := by
  intro d hd
  obtain ⟨hmem, hle⟩ := blockMin_props blk hne
  have h1 := hr d hd
  have h2 := hr _ hmem
  have h3 := hle d hd
  unfold inRange at h1 h2
  have hsplit := two_pow_split bits hb
  apply ofSigned_small
  · omega
  · have : ((2 ^ bits : Nat) : Int) = 2 * ((2 ^ (bits - 1) : Nat) : Int) := by exact_mod_cast hsplit
    rw [this]; omega

theorem reconRel_map (bits : Nat) (mn : Int) : ∀ (blk : List Int) (last : Int),
    (∀ d ∈ blk, ((ofSigned bits (d - mn) : Nat) : Int) = d - mn) →
    reconRel bits mn last (blk.map fun d => ofSigned bits (d - mn)) = recon bits last blk ∧
    lastAfter bits mn last (blk.map fun d => ofSigned bits (d - mn)) = lastV bits last blk := by
  intro blk
  induction blk with
  | nil => intro last _; exact ⟨rfl, rfl⟩
  | cons d ds ih =>
    intro last hf
    have h1 := hf d (List.mem_cons_self)
    have e : last + mn + (d - mn) = last + d := by ring
    have ih' := ih (wrapSg bits (last + d)) (fun x hx => hf x (List.mem_cons_of_mem _ hx))
    simp only [List.map_cons, reconRel, lastAfter, recon, lastV, h1, e]
    exact ⟨by rw [ih'.1], ih'.2⟩

theorem reconRel_blockRel (bits : Nat) (hb : 1 ≤ bits) (blk : List Int) (hne : blk ≠ []) (hr : ∀ d ∈ blk, inRange bits d) (last : Int) :
    reconRel bits (blockMin blk) last (blockRel bits blk) = recon bits last blk ∧
    lastAfter bits (blockMin blk) last (blockRel bits blk) = lastV bits last blk :=
  reconRel_map bits (blockMin blk) blk last (fun d hd => (rel_facts bits hb blk hne hr d hd).1)


/-- shape side conditions of the format: whole miniblocks, a multiple of 8 values each -/
structure ShapeOk (sh : DeltaShape) : Prop where
  mpb_pos : 1 ≤ sh.mpb
  vpm_pos : 0 < sh.blockSize / sh.mpb
  exact : sh.blockSize = sh.mpb * (sh.blockSize / sh.mpb)
  vpm8 : (sh.blockSize / sh.mpb) % 8 = 0

theorem zzVar_enc (n : Int) (rest : List Nat) : zzVar (uvarintEnc (zigzagEnc n) ++ rest) = some (n, rest) := by
  simp [zzVar, uvarint_rt, zigzag_rt]

/-- one block is decoded and the decoder continues behind it -/
theorem block_step (bits : Nat) (hb : 1 ≤ bits) (sh : DeltaShape) (hs : ShapeOk sh) (blk : List Int) (hne : blk ≠ [])
    (hlen : blk.length ≤ sh.blockSize) (hr : ∀ d ∈ blk, inRange bits d) (need f : Nat) (last : Int) (acc : List Int) (tail : List Nat)
    (hneed : need = blk.length ∨ (blk.length = sh.blockSize ∧ sh.blockSize ≤ need)) :
    deltaBlocks bits sh.mpb (sh.blockSize / sh.mpb) (f + 1) (encBlock bits sh blk ++ tail) need last acc
      = deltaBlocks bits sh.mpb (sh.blockSize / sh.mpb) f tail (need - blk.length) (lastV bits last blk) (acc ++ recon bits last blk) := by
  obtain ⟨hmpb, hvpm, hexact, h8⟩ := hs
  set vpm := sh.blockSize / sh.mpb with hv
  have hrl : (blockRel bits blk).length = blk.length := by simp [blockRel]
  have hk : (chunk vpm ((blockRel bits blk).length + 1) (blockRel bits blk)).length ≤ sh.mpb := by
    apply chunk_length_le vpm hvpm
    rw [hrl]; rw [hexact] at hlen; exact hlen
  rw [encBlock_form bits sh blk hk]
  set minis := chunk vpm ((blockRel bits blk).length + 1) (blockRel bits blk) with hminis
  have hpos : 0 < blk.length := List.length_pos_iff.mpr hne
  have hneedpos : need ≠ 0 := by rcases hneed with h | ⟨_, h⟩ <;> omega
  conv => lhs; unfold deltaBlocks
  simp only [hneedpos, if_false, List.append_assoc, zzVar_enc]
  have hwl : (minis.map (widthOf bits sh.extraWidth) ++ List.replicate (sh.mpb - minis.length) 0).length = sh.mpb := by
    simp; omega
  have hshape : ∀ (P : List Nat), minis.map (widthOf bits sh.extraWidth) ++ (List.replicate (sh.mpb - minis.length) 0 ++ (P ++ tail))
      = (minis.map (widthOf bits sh.extraWidth) ++ List.replicate (sh.mpb - minis.length) 0) ++ (P ++ tail) := by
    intro P; simp
  rw [hshape, List.take_left' hwl, List.drop_left' hwl]
  have hz : need = (blockRel bits blk).length ∨
      (sh.mpb - minis.length = 0 ∧ (blockRel bits blk).length % vpm = 0 ∧ (blockRel bits blk).length ≤ need) := by
    rcases hneed with h | ⟨hfull, hle⟩
    · left; rw [hrl]; exact h
    · right
      have hfl : minis.length = sh.mpb := by
        apply chunk_length_full vpm hvpm
        · rw [hrl, hfull]; exact hexact
        · omega
      refine ⟨by omega, ?_, by rw [hrl, hfull]; exact hle⟩
      rw [hrl, hfull, hexact]; exact Nat.mul_mod_left _ _
  have hcr := deltaMinis_chunks bits sh.extraWidth vpm (blockMin blk) hvpm h8 ((blockRel bits blk).length + 1) (blockRel bits blk)
    need (sh.mpb - minis.length) last acc tail (by omega)
    (fun x hx => by
      simp only [blockRel, List.mem_map] at hx
      obtain ⟨d, hd, rfl⟩ := hx
      exact (rel_facts bits hb blk hne hr d hd).2) hz
  rw [hcr]
  obtain ⟨h1, h2⟩ := reconRel_blockRel bits hb blk hne hr last
  simp only [h1, h2, hrl]

theorem encBlock_length_pos (bits : Nat) (sh : DeltaShape) (blk : List Int) : 0 < (encBlock bits sh blk).length := by
  unfold encBlock
  simp only [List.length_append]
  have := uvarintEnc_length_pos (zigzagEnc (blk.foldl min (blk.headD 0)))
  omega

/-- all blocks -/
theorem blocks_decode (bits : Nat) (hb : 1 ≤ bits) (sh : DeltaShape) (hs : ShapeOk sh) (tail : List Nat) :
    ∀ (fuelC : Nat) (ds : List Int) (fuelD : Nat) (last : Int) (acc : List Int),
      ds.length ≤ fuelC → (chunk sh.blockSize fuelC ds).length < fuelD → (∀ d ∈ ds, inRange bits d) →
      deltaBlocks bits sh.mpb (sh.blockSize / sh.mpb) fuelD ((chunk sh.blockSize fuelC ds).flatMap (encBlock bits sh) ++ tail)
          ds.length last acc
        = some (acc ++ recon bits last ds, tail) := by
  have hB : 0 < sh.blockSize := by
    have := hs.exact; have := hs.vpm_pos; have := hs.mpb_pos
    rw [hs.exact]; exact Nat.mul_pos (by omega) hs.vpm_pos
  intro fuelC
  induction fuelC with
  | zero =>
    intro ds fuelD last acc hlen hf _
    have : ds = [] := by simpa using hlen
    subst this
    obtain ⟨f, rfl⟩ : ∃ f, fuelD = f + 1 := ⟨fuelD - 1, by simp [chunk] at hf; omega⟩
    simp [chunk, deltaBlocks, recon]
  | succ c ih =>
    intro ds fuelD last acc hlen hf hr
    by_cases hnil : ds = []
    · subst hnil
      obtain ⟨f, rfl⟩ : ∃ f, fuelD = f + 1 := ⟨fuelD - 1, by omega⟩
      simp [chunk_nil, deltaBlocks, recon]
    · rw [chunk_cons sh.blockSize c ds hnil (by omega)] at hf ⊢
      obtain ⟨f, rfl⟩ : ∃ f, fuelD = f + 1 := ⟨fuelD - 1, by omega⟩
      have hpos : 0 < ds.length := List.length_pos_iff.mpr hnil
      set blk := ds.take sh.blockSize with hblk
      set rest := ds.drop sh.blockSize with hrest
      have hbl : blk.length = min sh.blockSize ds.length := by simp [hblk]
      have hbne : blk ≠ [] := by
        intro hc
        have h0 : blk.length = 0 := by rw [hc]; rfl
        rw [hbl] at h0
        rcases Nat.le_total sh.blockSize ds.length with h | h
        · rw [Nat.min_eq_left h] at h0; omega
        · rw [Nat.min_eq_right h] at h0; omega
      have hds : ds = blk ++ rest := by simp [hblk, hrest]
      simp only [List.flatMap_cons, List.append_assoc]
      rw [block_step bits hb sh hs blk hbne (by rw [hbl]; exact Nat.min_le_left _ _)
        (fun d hd => hr d (List.mem_of_mem_take hd)) ds.length f last acc _
        (by
          rcases Nat.le_total ds.length sh.blockSize with h | h
          · left; rw [hbl]; omega
          · right; exact ⟨by rw [hbl]; omega, h⟩)]
      have hrl : rest.length = ds.length - blk.length := by
        rw [hds, List.length_append]; omega
      rw [← hrl]
      rw [ih rest f (lastV bits last blk) (acc ++ recon bits last blk) (by rw [hrl]; omega)
        (by simp only [List.length_cons] at hf; omega) (fun d hd => hr d (List.mem_of_mem_drop hd))]
      conv => rhs; rw [hds]
      simp only [recon_append, List.append_assoc]


def diffs (bits : Nat) : List Int → List Int
  | [] => []
  | [_] => []
  | a :: b :: rest => wrapSg bits (b - a) :: diffs bits (b :: rest)

theorem diffs_eq_zip (bits : Nat) : ∀ (v0 : Int) (rest : List Int),
    ((v0 :: rest).zip rest).map (fun (p : Int × Int) => toSigned bits (ofSigned bits (p.2 - p.1))) = diffs bits (v0 :: rest) := by
  intro v0 rest
  induction rest generalizing v0 with
  | nil => rfl
  | cons b bs ih =>
    simp only [List.zip_cons_cons, List.map_cons, diffs]
    rw [ih b]; rfl

theorem diffs_length (bits : Nat) : ∀ (v0 : Int) (rest : List Int), (diffs bits (v0 :: rest)).length = rest.length := by
  intro v0 rest
  induction rest generalizing v0 with
  | nil => rfl
  | cons b bs ih => simp [diffs, ih b]

theorem diffs_inRange (bits : Nat) (hb : 1 ≤ bits) : ∀ (v0 : Int) (rest : List Int), ∀ d ∈ diffs bits (v0 :: rest), inRange bits d := by
  intro v0 rest
  induction rest generalizing v0 with
  | nil => intro d hd; cases hd
  | cons b bs ih =>
    intro d hd
    simp only [diffs, List.mem_cons] at hd
    rcases hd with rfl | hd
    · exact wrapSg_inRange bits hb _
    · exact ih b d hd

theorem recon_diffs (bits : Nat) (hb : 1 ≤ bits) : ∀ (v0 : Int) (rest : List Int), (∀ v ∈ rest, inRange bits v) →
    recon bits v0 (diffs bits (v0 :: rest)) = rest := by
  intro v0 rest
  induction rest generalizing v0 with
  | nil => intro _; rfl
  | cons b bs ih =>
    intro hr
    have hbr := hr b (List.mem_cons_self)
    simp only [diffs, recon, wrapSg_step bits hb v0 b hbr]
    rw [ih b (fun v hv => hr v (List.mem_cons_of_mem _ hv))]

theorem flatMap_length_ge {α β} (l : List α) (f : α → List β) (h : ∀ a, 0 < (f a).length) : l.length ≤ (l.flatMap f).length := by
  induction l with
  | nil => simp
  | cons x xs ih => simp only [List.flatMap_cons, List.length_append, List.length_cons]; have := h x; omega

/-- **DELTA_BINARY_PACKED round trip** (specification level): for every block size / miniblock count
    allowed by the format, every widening of the miniblock widths, every list of values in the signed
    range of the column's width — any length, any number of blocks, partially filled last block and
    miniblock — the decoder returns the values and leaves the bytes that follow untouched. -/
theorem decodeDelta_encodeDelta (bits : Nat) (hb : 1 ≤ bits) (sh : DeltaShape) (hs : ShapeOk sh) (vs : List Int)
    (hr : ∀ v ∈ vs, inRange bits v) (tail : List Nat) :
    decodeDelta bits (encodeDelta bits sh vs ++ tail) = some (vs, tail) := by
  have hmpb : sh.mpb ≠ 0 := by have := hs.mpb_pos; omega
  cases vs with
  | nil =>
    simp only [encodeDelta, List.append_assoc, decodeDelta, uvarint_rt, zzVar_enc, Option.bind_eq_bind, Option.bind_some,
      List.length_nil, hmpb, if_false, if_true]
  | cons v0 rest =>
    have hv0 := hr v0 (List.mem_cons_self)
    have hrest : ∀ v ∈ rest, inRange bits v := fun v hv => hr v (List.mem_cons_of_mem _ hv)
    have henc : encodeDelta bits sh (v0 :: rest) =
        uvarintEnc sh.blockSize ++ uvarintEnc sh.mpb ++ uvarintEnc (v0 :: rest).length ++ uvarintEnc (zigzagEnc v0) ++
          (chunk sh.blockSize ((diffs bits (v0 :: rest)).length + 1) (diffs bits (v0 :: rest))).flatMap (encBlock bits sh) := by
      simp only [encodeDelta]
      rw [diffs_eq_zip]
      rfl
    rw [henc]
    set ds := diffs bits (v0 :: rest) with hds
    set body := (chunk sh.blockSize (ds.length + 1) ds).flatMap (encBlock bits sh) with hbody
    have hne : ¬ ((v0 :: rest).length = 0) := by simp
    simp only [List.append_assoc, decodeDelta, uvarint_rt, zzVar_enc, Option.bind_eq_bind, Option.bind_some, hmpb, if_false, hne]
    have hw : toSigned bits (ofSigned bits v0) = v0 := wrapSg_id bits hb v0 hv0
    rw [hw]
    have hlen : (v0 :: rest).length - 1 = ds.length := by rw [hds, diffs_length]; simp
    rw [hlen]
    have hfuel : (chunk sh.blockSize (ds.length + 1) ds).length <
        (uvarintEnc sh.blockSize ++ (uvarintEnc sh.mpb ++ (uvarintEnc (v0 :: rest).length ++ (uvarintEnc (zigzagEnc v0) ++ (body ++ tail))))).length + 1 := by
      have := flatMap_length_ge (chunk sh.blockSize (ds.length + 1) ds) (encBlock bits sh) (encBlock_length_pos bits sh)
      have hbl : body.length = ((chunk sh.blockSize (ds.length + 1) ds).flatMap (encBlock bits sh)).length := by rw [hbody]
      simp only [List.length_append]
      omega
    rw [hbody, blocks_decode bits hb sh hs tail (ds.length + 1) ds _ v0 [v0] (by omega) (by rw [← hbody]; exact hfuel) (diffs_inRange bits hb v0 rest)]
    rw [hds, recon_diffs bits hb v0 rest hrest]
    rfl

end PqV.Spec
