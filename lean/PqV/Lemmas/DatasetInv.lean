import PqV.Impl.DatasetOps
import PqV.Lemmas.Dataset
import Mathlib.Data.List.Nodup
namespace PqV.Impl.DatasetOps
open PqV.Impl.Dataset

abbrev Files := List ((String × Nat) × List Nat)

def fget (fs : Files) (k : String × Nat) : Option (List Nat) := (fs.find? (·.1 == k)).map (·.2)
def key (r : RgRef) : String × Nat := (r.dir, r.id)

theorem getFile_eq (ds : DS) (k : String × Nat) : ds.getFile k = fget ds.files k := rfl

theorem fget_put_eq (fs : Files) (k : String × Nat) (rows : List Nat) : fget (putFile fs k rows) k = some rows := by
  simp [fget, putFile]

theorem fget_filter_ne (fs : Files) (k q : String × Nat) (h : q ≠ k) :
    fget (fs.filter (·.1 != k)) q = fget fs q := by
  rw [fget, fget, List.find?_filter]
  congr 2
  funext a
  by_cases e : a.1 = q
  · simp [e, h]
  · simp [e]

theorem fget_put_ne (fs : Files) (k q : String × Nat) (rows : List Nat) (h : q ≠ k) :
    fget (putFile fs k rows) q = fget fs q := by
  have hk : (k == q) = false := by simpa using fun e : k = q => h e.symm
  have := fget_filter_ne fs k q h
  simp only [fget, putFile, List.find?_cons, hk] at this ⊢
  exact this

theorem fget_del_ne (fs : Files) (k q : String × Nat) (h : q ≠ k) : fget (delFile fs k) q = fget fs q :=
  fget_filter_ne fs k q h

theorem fget_del_eq (fs : Files) (k : String × Nat) : fget (delFile fs k) k = none := by
  simp [fget, delFile, List.find?_eq_none]

theorem mem_put {fs : Files} {k : String × Nat} {rows : List Nat} {f : (String × Nat) × List Nat}
    (h : f ∈ putFile fs k rows) : f = (k, rows) ∨ (f ∈ fs ∧ f.1 ≠ k) := by
  simp only [putFile, List.mem_cons, List.mem_filter, bne_iff_ne, ne_eq] at h
  exact h

theorem mem_del {fs : Files} {k : String × Nat} {f : (String × Nat) × List Nat}
    (h : f ∈ delFile fs k) : f ∈ fs ∧ f.1 ≠ k := by
  simpa [delFile] using h

/-- the invariant: every referenced file holds the rows the metadata says, every file on disk is
    referenced, and no two row groups share a file -/
structure Inv (ds : DS) : Prop where
  refs_ok : ∀ r ∈ ds.refs, fget ds.files (key r) = some r.rows
  files_ok : ∀ f ∈ ds.files, ∃ r ∈ ds.refs, key r = f.1
  nodup : (ds.refs.map key).Nodup

theorem agree_of_inv {ds : DS} (h : Inv ds) : agree ds = true := by
  simp only [agree, Bool.and_eq_true, List.all_eq_true, List.any_eq_true, beq_iff_eq]
  refine ⟨fun r hr => ?_, fun f hf => ?_⟩
  · rw [getFile_eq]; exact h.refs_ok r hr
  · obtain ⟨r, hr, hk⟩ := h.files_ok f hf
    exact ⟨r, hr, hk⟩

theorem inv_of_agree {ds : DS} (h : agree ds = true) (hn : (ds.refs.map key).Nodup) : Inv ds := by
  simp only [agree, Bool.and_eq_true, List.all_eq_true, List.any_eq_true, beq_iff_eq] at h
  refine ⟨fun r hr => ?_, fun f hf => ?_, hn⟩
  · have := h.1 r hr; rwa [getFile_eq] at this
  · obtain ⟨r, hr, hk⟩ := h.2 f hf
    exact ⟨r, hr, hk⟩

/-! ### adding new row groups -/
def putAll (fs : Files) (new : List RgRef) : Files := new.foldl (fun fs r => putFile fs (r.dir, r.id) r.rows) fs

theorem fget_putAll_notin (new : List RgRef) (fs : Files) (q : String × Nat) (h : ∀ r ∈ new, key r ≠ q) :
    fget (putAll fs new) q = fget fs q := by
  induction new generalizing fs with
  | nil => rfl
  | cons r rest ih =>
    simp only [putAll, List.foldl_cons] at ih ⊢
    rw [ih _ (fun r' hr' => h r' (List.mem_cons_of_mem _ hr'))]
    exact fget_put_ne fs _ q _ (fun e => h r List.mem_cons_self e.symm)

theorem fget_putAll_in (new : List RgRef) (fs : Files) (hn : (new.map key).Nodup) (r : RgRef) (hr : r ∈ new) :
    fget (putAll fs new) (key r) = some r.rows := by
  induction new generalizing fs with
  | nil => cases hr
  | cons x rest ih =>
    simp only [List.map_cons, List.nodup_cons] at hn
    simp only [putAll, List.foldl_cons] at ih ⊢
    rcases List.mem_cons.mp hr with rfl | hr'
    · have : fget (putAll (putFile fs (r.dir, r.id) r.rows) rest) (key r) = fget (putFile fs (r.dir, r.id) r.rows) (key r) := by
        apply fget_putAll_notin
        intro r' hr' e
        exact hn.1 (e ▸ List.mem_map_of_mem hr')
      simp only [putAll] at this
      rw [this]
      exact fget_put_eq fs _ _
    · exact ih _ hn.2 hr'

theorem mem_putAll (new : List RgRef) (fs : Files) (f : (String × Nat) × List Nat) (h : f ∈ putAll fs new) :
    f ∈ fs ∨ ∃ r ∈ new, f = (key r, r.rows) := by
  induction new generalizing fs with
  | nil => exact Or.inl h
  | cons x rest ih =>
    simp only [putAll, List.foldl_cons] at ih h
    rcases ih _ h with h1 | ⟨r, hr, e⟩
    · rcases mem_put h1 with e | ⟨h2, _⟩
      · exact Or.inr ⟨x, List.mem_cons_self, e⟩
      · exact Or.inl h2
    · exact Or.inr ⟨r, List.mem_cons_of_mem _ hr, e⟩

/-- the pieces of one incoming row group go to distinct directories (they come from a group-by) -/
def PiecesOk (nd : NewData) : Prop := ∀ pieces ∈ nd, (pieces.map (·.1)).Nodup

theorem newRefs_id_ge (off : Nat) (nd : NewData) (i : Nat) : ∀ r ∈ newRefs off i nd, i + off ≤ r.id := by
  induction nd generalizing i with
  | nil => intro r h; simp [newRefs] at h
  | cons pieces rest ih =>
    intro r h
    simp only [newRefs, List.mem_append, List.mem_map] at h
    rcases h with ⟨⟨d, rows⟩, _, rfl⟩ | h
    · simp
    · have := ih (i + 1) r h; omega

theorem newRefs_nodup (off : Nat) (nd : NewData) (i : Nat) (h : PiecesOk nd) : ((newRefs off i nd).map key).Nodup := by
  induction nd generalizing i with
  | nil => simp [newRefs]
  | cons pieces rest ih =>
    have h1 : (pieces.map (·.1)).Nodup := h pieces List.mem_cons_self
    have h2 : PiecesOk rest := fun p hp => h p (List.mem_cons_of_mem _ hp)
    simp only [newRefs, List.map_append, List.map_map]
    rw [List.nodup_append]
    refine ⟨?_, ih (i + 1) h2, ?_⟩
    · have : (pieces.map (key ∘ fun (x : String × List Nat) => ({ dir := x.1, id := i + off, rows := x.2 } : RgRef)))
          = (pieces.map (·.1)).map (fun d => (d, i + off)) := by
        simp [List.map_map, key, Function.comp_def]
      rw [this]
      exact List.Nodup.map (fun a b e => by injection e) h1
    · intro a ha b hb e
      simp only [List.mem_map, Function.comp] at ha hb
      obtain ⟨p, _, rfl⟩ := ha
      obtain ⟨r, hr, rfl⟩ := hb
      have := newRefs_id_ge off rest (i + 1) r hr
      simp only [key] at e
      injection e with _ e2
      omega

theorem addNew_inv (ds : DS) (nd : NewData) (h : Inv ds) (hp : PiecesOk nd) : Inv (addNew ds nd) := by
  have hnew := newRefs_nodup (maxPart ds.refs) nd 0 hp
  have hfresh : ∀ r' ∈ newRefs (maxPart ds.refs) 0 nd, ∀ r ∈ ds.refs, key r' ≠ key r := by
    intro r' hr' r hr e
    have h1 := lt_maxPart ds.refs r hr
    have h2 := newRefs_id_ge (maxPart ds.refs) nd 0 r' hr'
    simp only [key] at e
    injection e with _ e2
    omega
  refine ⟨?_, ?_, ?_⟩
  · intro r hr
    simp only [addNew, List.mem_append] at hr ⊢
    rcases hr with hr | hr
    · show fget (putAll ds.files _) (key r) = _
      rw [fget_putAll_notin _ _ _ (fun r' hr' => hfresh r' hr' r hr)]
      exact h.refs_ok r hr
    · exact fget_putAll_in _ _ hnew r hr
  · intro f hf
    simp only [addNew] at hf ⊢
    rcases mem_putAll _ _ f hf with h1 | ⟨r, hr, rfl⟩
    · obtain ⟨r, hr, e⟩ := h.files_ok f h1
      exact ⟨r, List.mem_append_left _ hr, e⟩
    · exact ⟨r, List.mem_append_right _ hr, rfl⟩
  · simp only [addNew, List.map_append]
    rw [List.nodup_append]
    refine ⟨h.nodup, hnew, ?_⟩
    intro a ha b hb e
    simp only [List.mem_map] at ha hb
    obtain ⟨r, hr, rfl⟩ := ha
    obtain ⟨r', hr', rfl⟩ := hb
    exact hfresh r' hr' r hr e.symm


/-! ### removing row groups (no renumbering) -/
def delAll (fs : Files) (gone : List RgRef) : Files := gone.foldl (fun fs r => delFile fs (r.dir, r.id)) fs

theorem fget_delAll (gone : List RgRef) (fs : Files) (q : String × Nat) (h : ∀ g ∈ gone, key g ≠ q) :
    fget (delAll fs gone) q = fget fs q := by
  induction gone generalizing fs with
  | nil => rfl
  | cons g rest ih =>
    simp only [delAll, List.foldl_cons] at ih ⊢
    rw [ih _ (fun g' hg' => h g' (List.mem_cons_of_mem _ hg'))]
    exact fget_del_ne fs _ q (fun e => h g List.mem_cons_self e.symm)

theorem mem_delAll (gone : List RgRef) (fs : Files) (f : (String × Nat) × List Nat) (h : f ∈ delAll fs gone) :
    f ∈ fs ∧ ∀ g ∈ gone, f.1 ≠ key g := by
  induction gone generalizing fs with
  | nil => exact ⟨h, fun g hg => by cases hg⟩
  | cons g rest ih =>
    simp only [delAll, List.foldl_cons] at ih h
    obtain ⟨h1, h2⟩ := ih _ h
    obtain ⟨h3, h4⟩ := mem_del h1
    refine ⟨h3, fun g' hg' => ?_⟩
    rcases List.mem_cons.mp hg' with rfl | hg''
    · exact h4
    · exact h2 g' hg''

def keepIdx (refs : List RgRef) (idxs : List Nat) : List RgRef :=
  (refs.zipIdx.filter (fun p => !idxs.contains p.2)).map (·.1)

theorem mem_keepIdx {refs : List RgRef} {idxs : List Nat} {r : RgRef} :
    r ∈ keepIdx refs idxs ↔ ∃ i, refs[i]? = some r ∧ i ∉ idxs := by
  simp only [keepIdx, List.mem_map, List.mem_filter, List.mem_zipIdx_iff_getElem?, Bool.not_eq_true',
    List.contains_eq_mem, decide_eq_false_iff_not, Prod.exists]
  constructor
  · rintro ⟨a, i, ⟨h1, h2⟩, rfl⟩; exact ⟨i, h1, h2⟩
  · rintro ⟨i, h1, h2⟩; exact ⟨r, i, ⟨h1, h2⟩, rfl⟩

theorem keepIdx_sublist (refs : List RgRef) (idxs : List Nat) : (keepIdx refs idxs).Sublist refs := by
  have h1 : (refs.zipIdx.filter (fun p => !idxs.contains p.2)).Sublist refs.zipIdx := List.filter_sublist
  have h2 := h1.map (·.1)
  rwa [List.zipIdx_map_fst] at h2

theorem key_inj_idx {refs : List RgRef} (hn : (refs.map key).Nodup) {i j : Nat} {r g : RgRef}
    (hi : refs[i]? = some r) (hj : refs[j]? = some g) (e : key r = key g) : i = j := by
  have hil : i < (refs.map key).length := by
    rw [List.length_map]; exact (List.getElem?_eq_some_iff.mp hi).1
  apply (List.getElem?_inj hil hn).mp
  rw [List.getElem?_map, List.getElem?_map, hi, hj]
  simp [e]

theorem removeRGs_inv (ds ds' : DS) (idxs : List Nat) (h : Inv ds) (hr : removeRGs ds idxs false = .ok ds') : Inv ds' := by
  simp only [removeRGs, Bool.false_eq_true, if_false, bind, Except.bind, pure, Except.pure] at hr
  injection hr with hr
  subst hr
  have hgone : ∀ g ∈ idxs.filterMap (fun i => ds.refs[i]?), ∃ j ∈ idxs, ds.refs[j]? = some g := by
    intro g hg
    simpa [List.mem_filterMap] using hg
  refine ⟨?_, ?_, ?_⟩
  · intro r hr
    obtain ⟨i, hi, hni⟩ := mem_keepIdx.mp hr
    show fget (delAll ds.files _) (key r) = _
    rw [fget_delAll]
    · exact h.refs_ok r (List.mem_of_getElem? hi)
    · intro g hg e
      obtain ⟨j, hj, hgj⟩ := hgone g hg
      have := key_inj_idx h.nodup hgj hi e
      exact hni (this ▸ hj)
  · intro f hf
    obtain ⟨h1, h2⟩ := mem_delAll _ _ f hf
    obtain ⟨r, hr, e⟩ := h.files_ok f h1
    obtain ⟨i, hi⟩ := List.getElem?_of_mem hr
    refine ⟨r, mem_keepIdx.mpr ⟨i, hi, fun hin => ?_⟩, e⟩
    exact h2 r (by simp only [List.mem_filterMap]; exact ⟨i, hin, hi⟩) e.symm
  · exact ((keepIdx_sublist ds.refs idxs).map key).nodup h.nodup

/-! ### re-ordering the row-group list -/
theorem inv_perm {ds : DS} {refs' : List RgRef} (h : Inv ds) (hp : refs'.Perm ds.refs) : Inv { ds with refs := refs' } := by
  refine ⟨fun r hr => h.refs_ok r (hp.mem_iff.mp hr), fun f hf => ?_, (hp.map key).nodup_iff.mpr h.nodup⟩
  obtain ⟨r, hr, e⟩ := h.files_ok f hf
  exact ⟨r, hp.mem_iff.mpr hr, e⟩

theorem insertBy_perm (k : RgRef → Nat) (x : RgRef) (l : List RgRef) : (insertBy k x l).Perm (x :: l) := by
  induction l with
  | nil => exact List.Perm.refl _
  | cons y ys ih =>
    simp only [insertBy]
    split
    · exact List.Perm.refl _
    · exact ((List.Perm.cons y ih).trans (List.Perm.swap x y ys))

theorem stableSortBy_perm (k : RgRef → Nat) (l : List RgRef) : (stableSortBy k l).Perm l := by
  induction l with
  | nil => exact List.Perm.refl _
  | cons x xs ih =>
    simp only [stableSortBy, List.foldr_cons] at ih ⊢
    exact (insertBy_perm k x _).trans (List.Perm.cons x ih)

theorem writeSorted_inv (ds ds' : DS) (nd : NewData) (h : Inv ds) (hp : PiecesOk nd)
    (hr : writeSorted ds nd false = .ok ds') : Inv ds' := by
  simp only [writeSorted, Bool.false_eq_true, if_false, bind, Except.bind, pure, Except.pure] at hr
  injection hr with hr
  subst hr
  exact inv_perm (addNew_inv ds nd h hp) (stableSortBy_perm _ _)

theorem overwrite_inv (ds ds' : DS) (nd : NewData) (h : Inv ds) (hp : PiecesOk nd)
    (hr : overwrite ds nd false = .ok ds') : Inv ds' := by
  simp only [overwrite, bind, Except.bind] at hr
  exact removeRGs_inv _ ds' _ (inv_perm (addNew_inv ds nd h hp) (stableSortBy_perm _ _)) hr


abbrev K := String × Nat
abbrev G := K → Option (List Nat)

/-- `rename` on the function view of the directory -/
def renameF (g : G) (p : K × K) : G := fun q => if q = p.2 then g p.1 else if q = p.1 then none else g q

theorem rename_ok (fs : Files) (src dst : K) (rows : List Nat) (h : fget fs src = some rows) :
    ∃ fs', rename fs src dst = .ok fs' ∧ fget fs' = renameF (fget fs) (src, dst) := by
  have h' : Option.map (fun x => x.2) (List.find? (fun x => x.1 == src) fs) = some rows := h
  refine ⟨putFile (delFile fs src) dst rows, ?_, ?_⟩
  · simp only [rename, h']
  · funext q
    simp only [renameF]
    by_cases hq : q = dst
    · subst hq; simp only [if_true]; rw [fget_put_eq, h]
    · simp only [hq, if_false]
      rw [fget_put_ne _ _ _ _ hq]
      by_cases hs : q = src
      · subst hs; simp only [if_true]; exact fget_del_eq fs q
      · simp only [hs, if_false]; exact fget_del_ne fs src q hs

/-- renames whose sources are distinct, whose destinations are distinct, and none of whose
    destinations is a source -/
structure Disjoint (L : List (K × K)) : Prop where
  src : (L.map (·.1)).Nodup
  dst : (L.map (·.2)).Nodup
  sd : ∀ p ∈ L, ∀ p' ∈ L, p.1 ≠ p'.2

theorem Disjoint.tail {p : K × K} {L : List (K × K)} (h : Disjoint (p :: L)) : Disjoint L :=
  ⟨(List.nodup_cons.mp h.src).2, (List.nodup_cons.mp h.dst).2,
   fun a ha b hb => h.sd a (List.mem_cons_of_mem _ ha) b (List.mem_cons_of_mem _ hb)⟩

theorem renames_run (L : List (K × K)) (hd : Disjoint L) (fs : Files) (hp : ∀ p ∈ L, (fget fs p.1).isSome) :
    ∃ fs', L.foldlM (fun fs p => rename fs p.1 p.2) fs = .ok fs' ∧ fget fs' = L.foldl renameF (fget fs) := by
  induction L generalizing fs with
  | nil => exact ⟨fs, rfl, rfl⟩
  | cons p rest ih =>
    obtain ⟨rows, hrows⟩ := Option.isSome_iff_exists.mp (hp p List.mem_cons_self)
    obtain ⟨fs1, h1, h2⟩ := rename_ok fs p.1 p.2 rows hrows
    have hp' : ∀ p' ∈ rest, (fget fs1 p'.1).isSome := by
      intro p' hp'
      rw [h2]
      have n1 : p'.1 ≠ p.2 := hd.sd p' (List.mem_cons_of_mem _ hp') p List.mem_cons_self
      have n2 : p'.1 ≠ p.1 := by
        intro e
        exact (List.nodup_cons.mp hd.src).1 (List.mem_map.mpr ⟨p', hp', e⟩)
      simp only [renameF, n1, n2, if_false]
      exact hp p' (List.mem_cons_of_mem _ hp')
    obtain ⟨fs', h3, h4⟩ := ih hd.tail fs1 hp'
    refine ⟨fs', ?_, ?_⟩
    · simp only [List.foldlM_cons, h1, bind, Except.bind]; exact h3
    · rw [h4, h2]; rfl

/-- closed form of a batch of disjoint renames -/
theorem renames_closed (L : List (K × K)) (hd : Disjoint L) (g : G) (q : K) :
    L.foldl renameF g q =
      match L.find? (fun p => p.2 == q) with
      | some p => g p.1
      | none => if L.any (fun p => p.1 == q) then none else g q := by
  induction L generalizing g with
  | nil => rfl
  | cons p rest ih =>
    simp only [List.foldl_cons]
    rw [ih hd.tail]
    by_cases hq : p.2 = q
    · -- q is p's destination: nobody else has it, and it is no source
      have hnone : rest.find? (fun p' => p'.2 == q) = none := by
        rw [List.find?_eq_none]
        intro p' hp' e
        have e' : p'.2 = q := by simpa using e
        exact (List.nodup_cons.mp hd.dst).1 (List.mem_map.mpr ⟨p', hp', e'.trans hq.symm⟩)
      have hany : rest.any (fun p' => p'.1 == q) = false := by
        rw [List.any_eq_false]
        intro p' hp' e
        have e' : p'.1 = q := by simpa using e
        exact hd.sd p' (List.mem_cons_of_mem _ hp') p List.mem_cons_self (e'.trans hq.symm)
      simp only [hnone, hany, List.find?_cons, hq, beq_self_eq_true, renameF, if_true, Bool.false_eq_true, if_false]
    · have hq' : (p.2 == q) = false := by simpa using hq
      simp only [List.find?_cons, hq']
      cases hf : rest.find? (fun p' => p'.2 == q) with
      | some p' =>
        have hm : p' ∈ rest := List.mem_of_find?_eq_some hf
        have n1 : p'.1 ≠ p.2 := hd.sd p' (List.mem_cons_of_mem _ hm) p List.mem_cons_self
        have n2 : p'.1 ≠ p.1 := by
          intro e
          exact (List.nodup_cons.mp hd.src).1 (List.mem_map.mpr ⟨p', hm, e⟩)
        simp only [renameF, n1, n2, if_false]
      | none =>
        simp only [List.any_cons]
        by_cases ha : rest.any (fun p' => p'.1 == q) = true
        · simp [ha]
        · have ha' : rest.any (fun p' => p'.1 == q) = false := Bool.eq_false_iff.mpr ha
          have hq2 : ¬ (q = p.2) := fun e => hq e.symm
          simp only [ha', Bool.or_false, Bool.false_eq_true, if_false, renameF, hq2]
          by_cases hs : p.1 = q
          · simp [hs]
          · have : ¬ (q = p.1) := fun e => hs e.symm
            simp [hs, this]


theorem renames_at_dst (L : List (K × K)) (hd : Disjoint L) (g : G) (p : K × K) (hp : p ∈ L) :
    L.foldl renameF g p.2 = g p.1 := by
  rw [renames_closed L hd g p.2]
  cases hf : L.find? (fun p' => p'.2 == p.2) with
  | some p' =>
    have hm := List.mem_of_find?_eq_some hf
    have he : p'.2 = p.2 := by simpa using List.find?_some hf
    have : p' = p := List.inj_on_of_nodup_map hd.dst hm hp he
    simp [this]
  | none =>
    rw [List.find?_eq_none] at hf
    exact absurd (by simp) (hf p hp)

theorem renames_elsewhere (L : List (K × K)) (hd : Disjoint L) (g : G) (q : K)
    (h1 : ∀ p ∈ L, p.2 ≠ q) (h2 : ∀ p ∈ L, p.1 ≠ q) : L.foldl renameF g q = g q := by
  rw [renames_closed L hd g q]
  have hf : L.find? (fun p' => p'.2 == q) = none := by
    rw [List.find?_eq_none]; intro p hp e; exact h1 p hp (by simpa using e)
  have ha : L.any (fun p => p.1 == q) = false := by
    rw [List.any_eq_false]; intro p hp e; exact h2 p hp (by simpa using e)
  simp [hf, ha]

theorem renames_src_gone (L : List (K × K)) (hd : Disjoint L) (g : G) (p : K × K) (hp : p ∈ L) :
    L.foldl renameF g p.1 = none := by
  rw [renames_closed L hd g p.1]
  have hf : L.find? (fun p' => p'.2 == p.1) = none := by
    rw [List.find?_eq_none]; intro p' hp' e
    have e' : p'.2 = p.1 := by simpa using e
    exact hd.sd p hp p' hp' e'.symm
  have ha : L.any (fun p' => p'.1 == p.1) = true := by
    rw [List.any_eq_true]; exact ⟨p, hp, by simp⟩
  simp [hf, ha]

/-- where a file can be after a batch of disjoint renames -/
theorem renames_some (L : List (K × K)) (hd : Disjoint L) (g : G) (q : K) (h : (L.foldl renameF g q).isSome) :
    (∃ p ∈ L, p.2 = q ∧ (g p.1).isSome) ∨ ((∀ p ∈ L, p.2 ≠ q) ∧ (∀ p ∈ L, p.1 ≠ q) ∧ (g q).isSome) := by
  rw [renames_closed L hd g q] at h
  cases hf : L.find? (fun p' => p'.2 == q) with
  | some p' =>
    rw [hf] at h
    exact Or.inl ⟨p', List.mem_of_find?_eq_some hf, by simpa using List.find?_some hf, h⟩
  | none =>
    rw [hf] at h
    rw [List.find?_eq_none] at hf
    by_cases ha : L.any (fun p => p.1 == q) = true
    · simp [ha] at h
    · have ha' := Bool.eq_false_iff.mpr ha
      simp only [ha', Bool.false_eq_true, if_false] at h
      rw [List.any_eq_false] at ha'
      exact Or.inr ⟨fun p hp e => hf p hp (by simpa using e), fun p hp e => ha' p hp (by simpa using e), h⟩

/-! ### the list of part files when no two row groups share a file -/
theorem partFiles_fold (l : List (RgRef × Nat)) (acc : List (K × Nat))
    (hn : (acc.map (·.1) ++ l.map (fun p => key p.1)).Nodup) :
    l.foldl (fun (acc : List (K × Nat)) (p : RgRef × Nat) =>
      if acc.any (·.1 == (p.1.dir, p.1.id)) then acc else acc ++ [((p.1.dir, p.1.id), p.2)]) acc
      = acc ++ l.map (fun p => (key p.1, p.2)) := by
  induction l generalizing acc with
  | nil => simp
  | cons p rest ih =>
    simp only [List.foldl_cons]
    have hnot : acc.any (·.1 == (p.1.dir, p.1.id)) = false := by
      rw [List.any_eq_false]
      intro a ha e
      have e' : a.1 = key p.1 := by simpa [key] using e
      rw [List.nodup_append] at hn
      exact hn.2.2 a.1 (List.mem_map.mpr ⟨a, ha, rfl⟩) (key p.1) (by simp) e'
    simp only [hnot, Bool.false_eq_true, if_false]
    rw [ih]
    · simp [key]
    · simpa [key, List.append_assoc] using hn

theorem partFiles_nodup (refs : List RgRef) (hn : (refs.map key).Nodup) :
    partFiles refs = refs.zipIdx.map (fun p => (key p.1, p.2)) := by
  have := partFiles_fold refs.zipIdx [] (by
    simp only [List.map_nil, List.nil_append]
    have : refs.zipIdx.map (fun p => key p.1) = refs.map key := by
      conv => rhs; rw [← List.zipIdx_map_fst 0 refs, List.map_map]
      rfl
    rw [this]; exact hn)
  simpa [partFiles] using this


abbrev E := K × Nat     -- (file key, index of its row group)
def tmpOf (e : E) : K := (e.1.1, tmpBase + e.2)
def dstOf (e : E) : K := (e.1.1, e.2)
def todoOf (refs : List RgRef) : List E := (refs.zipIdx.map (fun p => (key p.1, p.2))).filter (fun e => e.1.2 != e.2)

theorem mem_todo {refs : List RgRef} {e : E} (h : e ∈ todoOf refs) :
    ∃ r, refs[e.2]? = some r ∧ key r = e.1 ∧ r.id ≠ e.2 := by
  simp only [todoOf, List.mem_filter, List.mem_map, List.mem_zipIdx_iff_getElem?, bne_iff_ne, ne_eq] at h
  obtain ⟨⟨⟨r, i⟩, hri, rfl⟩, hne⟩ := h
  exact ⟨r, hri, rfl, hne⟩

theorem todo_sublist (refs : List RgRef) : (todoOf refs).Sublist (refs.zipIdx.map (fun p => (key p.1, p.2))) :=
  List.filter_sublist

theorem todo_keys_nodup (refs : List RgRef) (hn : (refs.map key).Nodup) : ((todoOf refs).map (·.1)).Nodup := by
  have h1 := (todo_sublist refs).map (·.1)
  have h2 : (refs.zipIdx.map (fun p => (key p.1, p.2))).map (·.1) = refs.map key := by
    rw [List.map_map]
    conv => rhs; rw [← List.zipIdx_map_fst 0 refs, List.map_map]
    rfl
  rw [h2] at h1
  exact h1.nodup hn

theorem todo_idx_nodup (refs : List RgRef) : ((todoOf refs).map (·.2)).Nodup := by
  have h1 := (todo_sublist refs).map (·.2)
  have h2 : (refs.zipIdx.map (fun p => (key p.1, p.2))).map (·.2) = refs.zipIdx.map (·.2) := by
    rw [List.map_map]; rfl
  rw [h2] at h1
  refine h1.nodup ?_
  rw [List.zipIdx_map_snd]
  exact List.nodup_range' ..


def L1 (T : List E) : List (K × K) := T.map (fun e => (e.1, tmpOf e))
def L2 (T : List E) : List (K × K) := T.map (fun e => (tmpOf e, dstOf e))

/-- what the proof needs of the todo list -/
structure TodoOk (T : List E) : Prop where
  keys : (T.map (·.1)).Nodup
  idxs : (T.map (·.2)).Nodup
  idLt : ∀ e ∈ T, e.1.2 < tmpBase
  ixLt : ∀ e ∈ T, e.2 < tmpBase

theorem todo_nodup {T : List E} (h : TodoOk T) : T.Nodup := List.Nodup.of_map _ h.idxs

theorem tmp_inj {T : List E} (h : TodoOk T) : (T.map tmpOf).Nodup := by
  refine List.Nodup.map_on ?_ (todo_nodup h)
  intro a ha b hb e
  simp only [tmpOf] at e
  have e2 : tmpBase + a.2 = tmpBase + b.2 := by injection e
  exact List.inj_on_of_nodup_map h.idxs ha hb (Nat.add_left_cancel e2)

theorem dst_inj {T : List E} (h : TodoOk T) : (T.map dstOf).Nodup := by
  refine List.Nodup.of_map (fun k : K => k.2) ?_
  rw [List.map_map]
  have : (T.map ((fun k : K => k.2) ∘ dstOf)) = T.map (·.2) := by
    apply List.map_congr_left; intro e _; simp [dstOf]
  rw [this]; exact h.idxs

theorem disjoint_L1 {T : List E} (h : TodoOk T) : Disjoint (L1 T) := by
  refine ⟨?_, ?_, ?_⟩
  · simpa [L1, List.map_map, Function.comp_def] using h.keys
  · simpa [L1, List.map_map, Function.comp_def] using tmp_inj h
  · intro p hp p' hp' e
    simp only [L1, List.mem_map] at hp hp'
    obtain ⟨a, ha, rfl⟩ := hp
    obtain ⟨b, hb, rfl⟩ := hp'
    have := h.idLt a ha
    simp only [tmpOf] at e
    have e2 : a.1.2 = tmpBase + b.2 := by rw [e]
    omega

theorem disjoint_L2 {T : List E} (h : TodoOk T) : Disjoint (L2 T) := by
  refine ⟨?_, ?_, ?_⟩
  · simpa [L2, List.map_map, Function.comp_def] using tmp_inj h
  · simpa [L2, List.map_map, Function.comp_def] using dst_inj h
  · intro p hp p' hp' e
    simp only [L2, List.mem_map] at hp hp'
    obtain ⟨a, ha, rfl⟩ := hp
    obtain ⟨b, hb, rfl⟩ := hp'
    have := h.ixLt b hb
    simp only [tmpOf, dstOf] at e
    have e2 : tmpBase + a.2 = b.2 := by injection e
    omega


def refStep (R : List RgRef) (e : E) : List RgRef :=
  R.mapIdx (fun i r => if i == e.2 then { r with dir := e.1.1, id := e.2 } else r)

/-- pass 2 of `_sort_part_names` = the renames on the directory, and independently the re-pointing -/
theorem pass2_split (T : List E) (fs : Files) (R : List RgRef) :
    T.foldlM (fun (st : Files × List RgRef) (e : E) => do
      let fs ← rename st.1 (e.1.1, tmpBase + e.2) (e.1.1, e.2)
      let refs := st.2.mapIdx (fun i r => if i == e.2 then { r with dir := e.1.1, id := e.2 } else r)
      (pure (fs, refs) : Except String (Files × List RgRef))) (fs, R)
    = ((L2 T).foldlM (fun fs p => rename fs p.1 p.2) fs).map (fun fs' => (fs', T.foldl refStep R)) := by
  induction T generalizing fs R with
  | nil => rfl
  | cons e rest ih =>
    simp only [List.foldlM_cons, L2, List.map_cons, List.foldl_cons, tmpOf, dstOf]
    cases hr : rename fs (e.1.1, tmpBase + e.2) (e.1.1, e.2) with
    | error m => rfl
    | ok fs1 =>
      simp only [bind, Except.bind, pure, Except.pure]
      have := ih fs1 (refStep R e)
      simp only [L2, tmpOf, dstOf] at this
      exact this

theorem getElem?_refStep (R : List RgRef) (e : E) (i : Nat) :
    (refStep R e)[i]? = (R[i]?).map (fun r => if i == e.2 then { r with dir := e.1.1, id := e.2 } else r) := by
  simp [refStep, List.getElem?_mapIdx]

/-- closed form of the re-pointing when every entry names the directory its row group already has -/
theorem refs_fold (T : List E) (R : List RgRef) (h : ∀ e ∈ T, ∀ r, R[e.2]? = some r → r.dir = e.1.1) :
    T.foldl refStep R = R.mapIdx (fun i r => if T.any (·.2 == i) then { r with id := i } else r) := by
  induction T generalizing R with
  | nil =>
    apply List.ext_getElem?
    intro i
    simp [List.getElem?_mapIdx]
  | cons e rest ih =>
    simp only [List.foldl_cons]
    rw [ih]
    · apply List.ext_getElem?
      intro i
      simp only [List.getElem?_mapIdx, getElem?_refStep, List.any_cons]
      cases hR : R[i]? with
      | none => rfl
      | some r =>
        simp only [Option.map_some]
        by_cases hi : i = e.2
        · subst hi
          have hd := h e List.mem_cons_self r hR
          simp [← hd]
        · have h1 : (i == e.2) = false := by simpa using hi
          have h2 : (e.2 == i) = false := by simpa using fun x : e.2 = i => hi x.symm
          simp only [h1, h2, Bool.false_eq_true, if_false, Bool.false_or]
    · intro e' he' r hr
      rw [getElem?_refStep] at hr
      cases hR : R[e'.2]? with
      | none => simp [hR] at hr
      | some r0 =>
        simp only [hR, Option.map_some, Option.some.injEq] at hr
        have hd := h e' (List.mem_cons_of_mem _ he') r0 hR
        subst hr
        split
        · next hi =>
          have hi' : e'.2 = e.2 := by simpa using hi
          have := h e List.mem_cons_self r0 (hi' ▸ hR)
          simp only; rw [← this]; exact hd
        · exact hd


/-- ids and row-group positions stay below the number that stands for the `.tmp` suffix in the model -/
structure Bounded (ds : DS) : Prop where
  ids : ∀ r ∈ ds.refs, r.id < tmpBase
  len : ds.refs.length ≤ tmpBase

theorem todoOk_of_inv {ds : DS} (h : Inv ds) (hb : Bounded ds) : TodoOk (todoOf ds.refs) := by
  refine ⟨todo_keys_nodup _ h.nodup, todo_idx_nodup _, ?_, ?_⟩
  · intro e he
    obtain ⟨r, hr, hk, _⟩ := mem_todo he
    have := hb.ids r (List.mem_of_getElem? hr)
    rw [← hk]; exact this
  · intro e he
    obtain ⟨r, hr, _, _⟩ := mem_todo he
    have := (List.getElem?_eq_some_iff.mp hr).1
    have := hb.len
    omega

theorem todo_mem_of {refs : List RgRef} {i : Nat} {r : RgRef} (hr : refs[i]? = some r) (hne : r.id ≠ i) :
    (key r, i) ∈ todoOf refs := by
  simp only [todoOf, List.mem_filter, List.mem_map, List.mem_zipIdx_iff_getElem?, bne_iff_ne, ne_eq]
  exact ⟨⟨(r, i), hr, rfl⟩, hne⟩

theorem fget_isSome_of_mem {fs : Files} {f : K × List Nat} (h : f ∈ fs) : (fget fs f.1).isSome := by
  simp only [fget, Option.isSome_map]
  rw [List.find?_isSome]
  exact ⟨f, h, by simp⟩

theorem mem_of_fget_isSome {fs : Files} {q : K} (h : (fget fs q).isSome) : ∃ f ∈ fs, f.1 = q := by
  simp only [fget, Option.isSome_map] at h
  rw [List.find?_isSome] at h
  obtain ⟨f, hf, e⟩ := h
  exact ⟨f, hf, by simpa using e⟩

def renumber (refs : List RgRef) : List RgRef := refs.mapIdx (fun i r => { r with id := i })

theorem mem_renumber {refs : List RgRef} {r' : RgRef} (h : r' ∈ renumber refs) :
    ∃ (i : Nat) (r : RgRef), refs[i]? = some r ∧ r' = { r with id := i } := by
  obtain ⟨i, hi⟩ := List.getElem?_of_mem h
  simp only [renumber, List.getElem?_mapIdx] at hi
  cases hr : refs[i]? with
  | none => rw [hr] at hi; cases hi
  | some r =>
    rw [hr] at hi
    simp only [Option.map_some, Option.some.injEq] at hi
    exact ⟨i, r, hr, hi.symm⟩

theorem ok_bind {α β : Type} (a : α) (f : α → Except String β) : (Except.ok a >>= f) = f a := rfl

theorem renumber_mem {refs : List RgRef} {i : Nat} {r : RgRef} (h : refs[i]? = some r) :
    ({ r with id := i } : RgRef) ∈ renumber refs := by
  apply List.mem_of_getElem? (i := i)
  simp [renumber, List.getElem?_mapIdx, h]

theorem renumber_nodup (refs : List RgRef) : ((renumber refs).map key).Nodup := by
  refine List.Nodup.of_map Prod.snd ?_
  have : ((renumber refs).map key).map Prod.snd = List.range refs.length := by
    apply List.ext_getElem?
    intro i
    simp only [renumber, List.getElem?_map, List.getElem?_mapIdx, List.getElem?_range]
    by_cases hi : i < refs.length
    · simp [hi, key]
    · simp [hi, List.getElem?_eq_none (Nat.le_of_not_lt hi)]
  rw [this]; exact List.nodup_range

/-- **`_sort_part_names` under the invariant**: it succeeds, re-establishes the invariant, and leaves
    every row group where it was with its number equal to its position. -/
theorem sortPartNames_inv (ds : DS) (h : Inv ds) (hb : Bounded ds) :
    ∃ ds', sortPartNames ds = .ok ds' ∧ Inv ds' ∧ ds'.refs = renumber ds.refs := by
  have hT := todoOk_of_inv h hb
  have hpres1 : ∀ p ∈ L1 (todoOf ds.refs), (fget ds.files p.1).isSome := by
    intro p hp
    simp only [L1, List.mem_map] at hp
    obtain ⟨e, he, rfl⟩ := hp
    obtain ⟨r, hr, hk, _⟩ := mem_todo he
    have := h.refs_ok r (List.mem_of_getElem? hr)
    simp only [← hk, this, Option.isSome_some]
  obtain ⟨F1, hF1, hG1⟩ := renames_run _ (disjoint_L1 hT) ds.files hpres1
  have hsrc : ∀ e ∈ todoOf ds.refs, fget F1 (tmpOf e) = fget ds.files e.1 := by
    intro e he
    rw [hG1]
    exact renames_at_dst _ (disjoint_L1 hT) _ (e.1, tmpOf e) (List.mem_map.mpr ⟨e, he, rfl⟩)
  have hpres2 : ∀ p ∈ L2 (todoOf ds.refs), (fget F1 p.1).isSome := by
    intro p hp
    simp only [L2, List.mem_map] at hp
    obtain ⟨e, he, rfl⟩ := hp
    rw [hsrc e he]
    exact hpres1 (e.1, tmpOf e) (List.mem_map.mpr ⟨e, he, rfl⟩)
  obtain ⟨F2, hF2, hG2⟩ := renames_run _ (disjoint_L2 hT) F1 hpres2
  -- the re-pointed row-group list
  have hrefs : (todoOf ds.refs).foldl refStep ds.refs = renumber ds.refs := by
    rw [refs_fold]
    · apply List.ext_getElem?
      intro i
      simp only [renumber, List.getElem?_mapIdx]
      cases hr : ds.refs[i]? with
      | none => rfl
      | some r =>
        simp only [Option.map_some, Option.some.injEq]
        split
        · rfl
        · next hany =>
          by_cases hid : r.id = i
          · cases r; simp_all
          · exact absurd (List.any_eq_true.mpr ⟨(key r, i), todo_mem_of hr hid, by simp⟩) hany
    · intro e he r hr
      obtain ⟨r', hr', hk, _⟩ := mem_todo he
      rw [hr] at hr'
      injection hr' with hr'
      rw [hr', ← hk]; rfl
  refine ⟨{ files := F2, refs := renumber ds.refs }, ?_, ?_, rfl⟩
  · -- the program computes exactly this
    simp only [sortPartNames, partFiles_nodup ds.refs h.nodup]
    change (do
      let files ← (todoOf ds.refs).foldlM (fun fs e => rename fs e.1 (e.1.1, tmpBase + e.2)) ds.files
      let x ← (todoOf ds.refs).foldlM _ (files, ds.refs)
      pure { files := x.1, refs := x.2 } : Except String DS) = _
    have e1 : (todoOf ds.refs).foldlM (fun fs e => rename fs e.1 (e.1.1, tmpBase + e.2)) ds.files = .ok F1 := by
      rw [← hF1, L1, List.foldlM_map]; rfl
    rw [e1, ok_bind, pass2_split, hF2, hrefs]
    rfl
  · -- the invariant
    have G1_else : ∀ q, (∀ e ∈ todoOf ds.refs, tmpOf e ≠ q) → (∀ e ∈ todoOf ds.refs, e.1 ≠ q) → fget F1 q = fget ds.files q := by
      intro q h1 h2
      rw [hG1]
      apply renames_elsewhere _ (disjoint_L1 hT)
      · intro p hp; simp only [L1, List.mem_map] at hp; obtain ⟨e, he, rfl⟩ := hp; exact h1 e he
      · intro p hp; simp only [L1, List.mem_map] at hp; obtain ⟨e, he, rfl⟩ := hp; exact h2 e he
    have G2_else : ∀ q, (∀ e ∈ todoOf ds.refs, dstOf e ≠ q) → (∀ e ∈ todoOf ds.refs, tmpOf e ≠ q) → fget F2 q = fget F1 q := by
      intro q h1 h2
      rw [hG2]
      apply renames_elsewhere _ (disjoint_L2 hT)
      · intro p hp; simp only [L2, List.mem_map] at hp; obtain ⟨e, he, rfl⟩ := hp; exact h1 e he
      · intro p hp; simp only [L2, List.mem_map] at hp; obtain ⟨e, he, rfl⟩ := hp; exact h2 e he
    have G2_dst : ∀ e ∈ todoOf ds.refs, fget F2 (dstOf e) = fget ds.files e.1 := by
      intro e he
      rw [hG2, renames_at_dst _ (disjoint_L2 hT) _ (tmpOf e, dstOf e) (List.mem_map.mpr ⟨e, he, rfl⟩)]
      exact hsrc e he
    -- a row group whose number already equals its position is not touched
    have untouched : ∀ i r, ds.refs[i]? = some r → r.id = i →
        (∀ e ∈ todoOf ds.refs, dstOf e ≠ key r) ∧ (∀ e ∈ todoOf ds.refs, tmpOf e ≠ key r) ∧ (∀ e ∈ todoOf ds.refs, e.1 ≠ key r) := by
      intro i r hr hid
      refine ⟨?_, ?_, ?_⟩
      · intro e he eq
        obtain ⟨r', hr', hk, hne⟩ := mem_todo he
        have e2 : e.2 = i := by
          have : (dstOf e).2 = (key r).2 := by rw [eq]
          simpa [dstOf, key, hid] using this
        rw [e2, hr] at hr'
        injection hr' with hr'
        rw [← hr', e2] at hne
        exact hne hid
      · intro e he eq
        have : (tmpOf e).2 = (key r).2 := by rw [eq]
        simp only [tmpOf, key] at this
        have := hb.ids r (List.mem_of_getElem? hr)
        omega
      · intro e he eq
        obtain ⟨r', hr', hk, hne⟩ := mem_todo he
        have e2 := key_inj_idx h.nodup hr' hr (hk.trans eq)
        rw [e2, hr] at hr'
        injection hr' with hr'
        rw [← hr', e2] at hne
        exact hne hid
    refine ⟨?_, ?_, renumber_nodup _⟩
    · intro r' hr'
      obtain ⟨i, r, hr, rfl⟩ := mem_renumber hr'
      by_cases hid : r.id = i
      · have e : ({ r with id := i } : RgRef) = r := by cases r; simp_all
        rw [e]
        obtain ⟨u1, u2, u3⟩ := untouched i r hr hid
        show fget F2 (key r) = _
        rw [G2_else _ u1 u2, G1_else _ u2 u3]
        exact h.refs_ok r (List.mem_of_getElem? hr)
      · have he := todo_mem_of hr hid
        have := G2_dst _ he
        simp only [dstOf, key] at this
        show fget F2 (r.dir, i) = some r.rows
        rw [this]
        exact h.refs_ok r (List.mem_of_getElem? hr)
    · intro f hf
      have hs : (fget F2 f.1).isSome := fget_isSome_of_mem hf
      rw [hG2] at hs
      rcases renames_some _ (disjoint_L2 hT) _ _ hs with ⟨p, hp, hpq, _⟩ | ⟨n1, n2, hs1⟩
      · simp only [L2, List.mem_map] at hp
        obtain ⟨e, he, rfl⟩ := hp
        obtain ⟨r, hr, hk, _⟩ := mem_todo he
        refine ⟨{ r with id := e.2 }, renumber_mem hr, ?_⟩
        rw [← hpq]
        simp only [key, dstOf, ← hk]
      · rw [hG1] at hs1
        rcases renames_some _ (disjoint_L1 hT) _ _ hs1 with ⟨p, hp, hpq, _⟩ | ⟨m1, m2, hs0⟩
        · simp only [L1, List.mem_map] at hp
          obtain ⟨e, he, rfl⟩ := hp
          exact absurd hpq (n2 (tmpOf e, dstOf e) (List.mem_map.mpr ⟨e, he, rfl⟩))
        · obtain ⟨f0, hf0, e0⟩ := mem_of_fget_isSome hs0
          obtain ⟨r, hr, hk⟩ := h.files_ok f0 hf0
          obtain ⟨i, hi⟩ := List.getElem?_of_mem hr
          by_cases hid : r.id = i
          · refine ⟨r, ?_, hk.trans e0⟩
            have e : ({ r with id := i } : RgRef) = r := by cases r; simp_all
            rw [← e]; exact renumber_mem hi
          · have he := todo_mem_of hi hid
            exact absurd (hk.trans e0) (m2 ((key r, i).1, tmpOf (key r, i)) (List.mem_map.mpr ⟨_, he, rfl⟩))


/-- below `N`: every part number and the number of row groups -/
def Below (N : Nat) (refs : List RgRef) : Prop := (∀ r ∈ refs, r.id < N) ∧ refs.length ≤ N

theorem bounded_iff (ds : DS) : Bounded ds ↔ Below tmpBase ds.refs :=
  ⟨fun h => ⟨h.ids, h.len⟩, fun h => ⟨h.1, h.2⟩⟩

theorem below_sublist {N : Nat} {a b : List RgRef} (h : Below N b) (hs : a.Sublist b) : Below N a :=
  ⟨fun r hr => h.1 r (hs.mem hr), Nat.le_trans hs.length_le h.2⟩

theorem below_perm {N : Nat} {a b : List RgRef} (h : Below N b) (hp : a.Perm b) : Below N a :=
  ⟨fun r hr => h.1 r (hp.mem_iff.mp hr), by rw [hp.length_eq]; exact h.2⟩

theorem newRefs_id_lt (off : Nat) (nd : NewData) (i : Nat) : ∀ r ∈ newRefs off i nd, r.id < i + off + nd.length := by
  induction nd generalizing i with
  | nil => intro r h; simp [newRefs] at h
  | cons pieces rest ih =>
    intro r h
    simp only [newRefs, List.mem_append, List.mem_map] at h
    rcases h with ⟨⟨d, rows⟩, _, rfl⟩ | h
    · simp only [List.length_cons]; omega
    · have := ih (i + 1) r h
      simp only [List.length_cons]; omega

theorem newRefs_length (off : Nat) (nd : NewData) (i : Nat) : (newRefs off i nd).length = (nd.map List.length).sum := by
  induction nd generalizing i with
  | nil => rfl
  | cons pieces rest ih => simp [newRefs, ih]

theorem maxPart_le {N : Nat} {refs : List RgRef} (h : ∀ r ∈ refs, r.id < N) : maxPart refs ≤ N := by
  induction refs with
  | nil => simp [maxPart]
  | cons r rs ih =>
    simp only [maxPart]
    have := h r List.mem_cons_self
    have := ih (fun r' hr' => h r' (List.mem_cons_of_mem _ hr'))
    omega

/-- room for the new row groups below the stand-in for the `.tmp` suffix -/
def Room (ds : DS) (nd : NewData) : Prop :=
  maxPart ds.refs + nd.length ≤ tmpBase ∧ ds.refs.length + (nd.map List.length).sum ≤ tmpBase

theorem addNew_below (ds : DS) (nd : NewData) (hb : Bounded ds) (hr : Room ds nd) : Below tmpBase (addNew ds nd).refs := by
  refine ⟨?_, ?_⟩
  · intro r hr'
    simp only [addNew, List.mem_append] at hr'
    rcases hr' with h | h
    · exact hb.ids r h
    · have := newRefs_id_lt (maxPart ds.refs) nd 0 r h
      have := hr.1
      omega
  · simp only [addNew, List.length_append, newRefs_length]
    exact hr.2

/-- what an operation needs for the invariant to carry over: pieces of one incoming row group go to
    distinct directories, and (where renumbering is involved) sizes stay below `tmpBase` -/
def OpOk (ds : DS) : Op → Prop
  | .write nd => PiecesOk nd
  | .append nd => PiecesOk nd
  | .overwrite nd sp => PiecesOk nd ∧ (sp = true → Bounded ds ∧ Room ds nd)
  | .remove _ sp => sp = true → Bounded ds
  | .writeSorted nd sp => PiecesOk nd ∧ (sp = true → Bounded ds ∧ Room ds nd)
  | .sortNames => Bounded ds

theorem inv_empty : Inv empty :=
  ⟨fun r hr => (by cases hr), fun f hf => (by cases hf), List.nodup_nil⟩

theorem removeRGs_split (ds ds' : DS) (idxs : List Nat) (sp : Bool) (h : removeRGs ds idxs sp = .ok ds') :
    ∃ ds1, removeRGs ds idxs false = .ok ds1 ∧ ds1.refs = keepIdx ds.refs idxs ∧
      (if sp then sortPartNames ds1 = .ok ds' else ds1 = ds') := by
  refine ⟨{ files := delAll ds.files (idxs.filterMap (fun i => ds.refs[i]?)), refs := keepIdx ds.refs idxs }, rfl, rfl, ?_⟩
  cases sp with
  | false =>
    simp only [removeRGs, Bool.false_eq_true, if_false, bind, Except.bind, pure, Except.pure] at h ⊢
    injection h
  | true =>
    simp only [removeRGs, if_true] at h ⊢
    exact h

theorem removeRGs_inv' (ds ds' : DS) (idxs : List Nat) (sp : Bool) (h : Inv ds) (hb : sp = true → Below tmpBase ds.refs)
    (hr : removeRGs ds idxs sp = .ok ds') : Inv ds' := by
  obtain ⟨ds1, h1, hrefs, h2⟩ := removeRGs_split ds ds' idxs sp hr
  have hi1 := removeRGs_inv ds ds1 idxs h h1
  cases sp with
  | false => simp only [Bool.false_eq_true, if_false] at h2; exact h2 ▸ hi1
  | true =>
    simp only [if_true] at h2
    have hb1 : Bounded ds1 := (bounded_iff ds1).mpr (hrefs ▸ below_sublist (hb rfl) (keepIdx_sublist _ _))
    obtain ⟨ds'', e, hi, _⟩ := sortPartNames_inv ds1 hi1 hb1
    rw [h2] at e
    injection e with e
    exact e ▸ hi

/-- **one step preserves the invariant** -/
theorem step_inv (ds ds' : DS) (op : Op) (h : Inv ds) (hop : OpOk ds op) (hs : step ds op = .ok ds') : Inv ds' := by
  cases op with
  | write nd =>
    simp only [step] at hs; injection hs with hs
    exact hs ▸ addNew_inv empty nd inv_empty hop
  | append nd =>
    simp only [step] at hs; injection hs with hs
    exact hs ▸ addNew_inv ds nd h hop
  | remove idxs sp =>
    exact removeRGs_inv' ds ds' idxs sp h (fun e => (bounded_iff ds).mp (hop e)) hs
  | sortNames =>
    obtain ⟨ds'', e, hi, _⟩ := sortPartNames_inv ds h hop
    simp only [step] at hs
    rw [hs] at e; injection e with e
    exact e ▸ hi
  | overwrite nd sp =>
    simp only [step, overwrite, bind, Except.bind] at hs
    have hi2 : ∀ k, Inv { files := (addNew ds nd).files, refs := stableSortBy k (addNew ds nd).refs } :=
      fun k => inv_perm (addNew_inv ds nd h hop.1) (stableSortBy_perm k _)
    refine removeRGs_inv' _ ds' _ sp (hi2 _) (fun e => ?_) hs
    obtain ⟨hb, hr⟩ := hop.2 e
    exact below_perm (addNew_below ds nd hb hr) (stableSortBy_perm _ _)
  | writeSorted nd sp =>
    have hi2 : ∀ k, Inv { files := (addNew ds nd).files, refs := stableSortBy k (addNew ds nd).refs } :=
      fun k => inv_perm (addNew_inv ds nd h hop.1) (stableSortBy_perm k _)
    cases sp with
    | false => exact writeSorted_inv ds ds' nd h hop.1 hs
    | true =>
      simp only [step, writeSorted, if_true] at hs
      obtain ⟨hb, hr⟩ := hop.2 rfl
      have hb2 : ∀ k, Below tmpBase (stableSortBy k (addNew ds nd).refs) :=
        fun k => below_perm (addNew_below ds nd hb hr) (stableSortBy_perm k _)
      obtain ⟨ds'', e, hi, _⟩ := sortPartNames_inv _ (hi2 _) ((bounded_iff _).mpr (hb2 _))
      rw [hs] at e; injection e with e
      exact e ▸ hi

/-- every step of the history meets its side condition in the state it is applied to -/
def HistOk (ds : DS) : List Op → Prop
  | [] => True
  | op :: ops => OpOk ds op ∧ (∀ ds', step ds op = .ok ds' → HistOk ds' ops)

/-- **the invariant holds after every history** -/
theorem run_inv (ops : List Op) (ds ds' : DS) (h : Inv ds) (hok : HistOk ds ops) (hr : run ds ops = .ok ds') : Inv ds' := by
  induction ops generalizing ds with
  | nil => simp only [run, List.foldlM_nil, pure, Except.pure] at hr; injection hr with hr; exact hr ▸ h
  | cons op ops ih =>
    simp only [run, List.foldlM_cons] at hr
    cases hs : step ds op with
    | error e => rw [hs] at hr; cases hr
    | ok ds1 =>
      rw [hs] at hr
      exact ih ds1 (step_inv ds ds1 op h hok.1 hs) (hok.2 ds1 hs) hr


/-! ### the side conditions are decidable (used for non-vacuity witnesses) -/
def piecesOkB (nd : NewData) : Bool := nd.all (fun pieces => decide (pieces.map (·.1)).Nodup)
def boundedB (ds : DS) : Bool := ds.refs.all (fun r => decide (r.id < tmpBase)) && decide (ds.refs.length ≤ tmpBase)
def roomB (ds : DS) (nd : NewData) : Bool :=
  decide (maxPart ds.refs + nd.length ≤ tmpBase) && decide (ds.refs.length + (nd.map List.length).sum ≤ tmpBase)

theorem piecesOk_of_B {nd : NewData} (h : piecesOkB nd = true) : PiecesOk nd := by
  simp only [piecesOkB, List.all_eq_true, decide_eq_true_eq] at h
  exact h

theorem bounded_of_B {ds : DS} (h : boundedB ds = true) : Bounded ds := by
  simp only [boundedB, Bool.and_eq_true, List.all_eq_true, decide_eq_true_eq] at h
  exact ⟨h.1, h.2⟩

theorem room_of_B {ds : DS} {nd : NewData} (h : roomB ds nd = true) : Room ds nd := by
  simp only [roomB, Bool.and_eq_true, decide_eq_true_eq] at h
  exact h

def opOkB (ds : DS) : Op → Bool
  | .write nd => piecesOkB nd
  | .append nd => piecesOkB nd
  | .overwrite nd sp => piecesOkB nd && (!sp || (boundedB ds && roomB ds nd))
  | .remove _ sp => !sp || boundedB ds
  | .writeSorted nd sp => piecesOkB nd && (!sp || (boundedB ds && roomB ds nd))
  | .sortNames => boundedB ds

theorem opOk_of_B {ds : DS} {op : Op} (h : opOkB ds op = true) : OpOk ds op := by
  cases op with
  | write nd => exact piecesOk_of_B h
  | append nd => exact piecesOk_of_B h
  | sortNames => exact bounded_of_B h
  | remove idxs sp =>
    intro e; subst e
    simp only [opOkB, Bool.not_true, Bool.false_or] at h
    exact bounded_of_B h
  | overwrite nd sp =>
    simp only [opOkB, Bool.and_eq_true] at h
    refine ⟨piecesOk_of_B h.1, fun e => ?_⟩
    subst e
    simp only [Bool.not_true, Bool.false_or, Bool.and_eq_true] at h
    exact ⟨bounded_of_B h.2.1, room_of_B h.2.2⟩
  | writeSorted nd sp =>
    simp only [opOkB, Bool.and_eq_true] at h
    refine ⟨piecesOk_of_B h.1, fun e => ?_⟩
    subst e
    simp only [Bool.not_true, Bool.false_or, Bool.and_eq_true] at h
    exact ⟨bounded_of_B h.2.1, room_of_B h.2.2⟩

def histOkB (ds : DS) : List Op → Bool
  | [] => true
  | op :: ops => opOkB ds op && (match step ds op with | .ok ds' => histOkB ds' ops | .error _ => true)

theorem histOk_of_B (ops : List Op) (ds : DS) (h : histOkB ds ops = true) : HistOk ds ops := by
  induction ops generalizing ds with
  | nil => trivial
  | cons op ops ih =>
    simp only [histOkB, Bool.and_eq_true] at h
    refine ⟨opOk_of_B h.1, fun ds' hs => ?_⟩
    have h2 := h.2
    rw [hs] at h2
    exact ih ds' h2

end PqV.Impl.DatasetOps
