import PqV.Drv.Proto
import PqV.Impl.Access
import PqV.Gen.Access
/- Drv.Access — `access.*` stream: which rows a partial-read program returns. -/
namespace PqV.Drv
open PqV.Impl.Access

def optInt (s : String) : Option Int := if s == "n" then none else some (parseInt s)

def showOpts (l : List (Option Nat)) : String :=
  showList (l.map fun o => match o with | some v => toString v | none => "u")

def handleAccess (op : String) (a : Args) : String :=
  match op with
  | "run" =>
    let rgs0 : List RG := (a.list "rgs").map (fun r => (splitTop r).map (·.toNat!))
    let steps := a.list "prog"
    let sels : List Sel := steps.filterMap fun st => match splitTop st with
      | ["s", st, sp, k] => some (Sel.slice (optInt st) (optInt sp) (parseInt k))
      | ["i", i] => some (Sel.pick (parseInt i))
      | _ => none
    let sel : Option (List RG) := runSels rgs0 sels
    match sel with
    | none => "err key"
    | some rgs =>
      match splitTop (a.str "term" "[read]") with
      | ["read"] => s!"ok rows={showOpts (toPandas rgs)}"
      | ["head", n] =>
        match head PqV.Gen.Access.headInitialisesI rgs n.toNat! with
        | some r => s!"ok rows={showOpts r}"
        | none => "err other:UnboundLocalError"
      | ["iter"] => s!"ok frames={showList ((iterRowGroups rgs).map showOpts)}"
      | ["count"] => s!"ok n={count rgs}"
      | ["len"] => s!"ok n={rgs.length}"
      | _ => "err bad-term"
  | _ => s!"err unknown-op access {op}"

end PqV.Drv
