import PqV.Drv.Proto
import PqV.Impl.Kernels
import PqV.Spec.Hybrid
import PqV.Spec.Delta
import PqV.Spec.Plain
/- Drv.Kern — `kern.*` (code-shaped models) and `spec.*` (format specification) streams. -/
namespace PqV.Drv
open PqV.Impl PqV.Spec

def showFault : Fault → String
  | .oobRead i n => s!"fault oobRead idx={i} len={n}"
  | .oobWrite i n => s!"fault oobWrite idx={i} len={n}"
  | .shift c w => s!"fault shift count={c} width={w}"
  | .divZero => "fault divZero"
  | .fuel => "fault fuel"

def showOut (r : K (Out × Nat)) : String :=
  match r with
  | .ok (o, loc) => s!"ok out={showNats o.items} loc={loc}"
  | .error f => showFault f

def parseRun (s : String) : Run :=
  -- "r:count:value" or "b:v1;v2;..."
  match s.splitOn ":" with
  | ["r", c, v] => .rle c.toNat! v.toNat!
  | ["b", vs] => .bp ((vs.splitOn ";").filterMap (·.toNat?))
  | _ => .rle 0 0

def handleKern (op : String) (a : Args) : String :=
  let inp := a.bytes "in"
  let loc := a.nat "loc"
  let cap := a.nat "cap"
  let item := a.nat "item" 4
  match op with
  | "uvarint" =>
    match readUvarint inp loc with
    | .ok (v, l) => s!"ok val={v} loc={l}"
    | .error f => showFault f
  | "uvarint_enc" => s!"ok out={toHex (encodeUvarint (a.nat "x"))}"
  | "zigzag" => s!"ok val={zigzagLong (a.nat "n")}"
  | "long_zigzag" => s!"ok val={longZigzag (a.int "n")}"
  | "read_rle" => showOut (readRle inp loc (a.nat "header") (a.nat "width") { items := [], cap } item)
  | "read_bitpacked" => showOut (readBitpacked inp loc (a.nat "header") (a.nat "width") { items := [], cap } item)
  | "read_bitpacked1" => showOut (readBitpacked1 inp loc (a.nat "count") { items := [], cap })
  | "hybrid" => showOut (readHybrid inp loc (a.nat "width") (a.nat "length") { items := [], cap } item)
  | "enc_bitpacked" =>
    match encodeBitpacked (a.nats "vals") (a.nat "width") with
    | .ok bs => s!"ok out={toHex bs}"
    | .error f => showFault f
  | "delta" =>
    match deltaBinaryUnpack inp loc cap (a.nat "long" != 0) with
    | .ok (arr, l) => s!"ok out={showNats arr.toList} loc={l}"
    | .error f => showFault f
  | "pack_ba" => s!"ok out={toHex (packByteArray ((a.list "items").map parseHex))}"
  | "unpack_ba" =>
    match unpackByteArray inp 0 (a.nat "n") with
    | .ok items => s!"ok out={showList (items.map toHex)}"
    | .error f => showFault f
  | "plain_bool" =>
    match readPlainBoolean inp (a.nat "count") with
    | .ok v => s!"ok out={showNats v}"
    | .error f => showFault f
  | "width_from_max_int" => s!"ok val={widthFromMaxInt (a.int "n")}"
  | "pack_bools" => s!"ok out={toHex (writerPackBools (a.nats "vals"))}"
  | _ => s!"err unknown-op kern {op}"

def handleSpec (op : String) (a : Args) : String :=
  let inp := a.bytes "in"
  match op with
  | "uvarint_enc" => s!"ok out={toHex (uvarintEnc (a.nat "x"))}"
  | "uvarint" =>
    match uvarintDec (inp.drop (a.nat "loc")) with
    | some (v, rest) => s!"ok val={v} loc={inp.length - rest.length}"
    | none => "err truncated"
  | "width_for" => s!"ok val={widthFor (a.nat "n")}"
  | "zigzag_dec" => s!"ok val={zigzagDec (a.nat "n")}"
  | "zigzag_enc" => s!"ok val={zigzagEnc (a.int "n")}"
  | "unpack" => s!"ok out={showNats (unpackLE (a.nat "w") (a.nat "n") inp)}"
  | "pack" => s!"ok out={toHex (packLE (a.nat "w") (a.nats "vals"))}"
  | "hybrid" => s!"ok out={showNats (decodeHybrid (a.nat "w") (a.nat "n") inp)}"
  | "hybrid_tight" => s!"ok tight={if hybridTight (a.nat "w") (a.nat "n") inp then 1 else 0}"
  | "hybrid_enc" => s!"ok out={toHex (encodeRuns (a.nat "w") ((a.list "runs").map parseRun))}"
  | "delta" =>
    match decodeDelta (a.nat "bits" 32) inp with
    | some (vs, rest) => s!"ok out={showInts vs} loc={inp.length - rest.length}"
    | none => "err truncated"
  | "delta_enc" =>
    let sh : DeltaShape := { blockSize := a.nat "block" 128, mpb := a.nat "mpb" 4, extraWidth := a.nat "extra" }
    s!"ok out={toHex (encodeDelta (a.nat "bits" 32) sh (a.ints "vals"))}"
  | "bools_pack" => s!"ok out={toHex (packBools ((a.nats "vals").map (· != 0)))}"
  | "bools_unpack" => s!"ok out={showNats ((unpackBools (a.nat "n") inp).map fun b => if b then 1 else 0)}"
  | _ => s!"err unknown-op spec {op}"

end PqV.Drv
