import PqV.Drv.Proto
import PqV.Impl.Merge
/- Drv.Merge — `merge.*` stream.  Path segments travel as hex text. -/
namespace PqV.Drv
open PqV.Impl.Merge

def segOf (s : String) : String := String.ofList ((parseHex s).map (fun n => Char.ofNat n))
def segHex (s : String) : String := toHex (s.toList.map Char.toNat)

def handleMerge (op : String) (a : Args) : String :=
  match op with
  | "paths" =>
    let paths := (a.list "paths").map (fun p => (splitTop p).map segOf)
    match a.get? "root" with
    | some r =>
      match analysePathsRoot ((splitTop r).map segOf) paths with
      | some (b, rel) => s!"ok base={showList (b.map segHex)} rel={showList (rel.map fun p => showList (p.map segHex))}"
      | none => "err assertion"
    | none =>
      let (b, rel) := analysePaths paths
      s!"ok base={showList (b.map segHex)} rel={showList (rel.map fun p => showList (p.map segHex))}"
  | _ => s!"err unknown-op merge {op}"

end PqV.Drv
