import PqV.Drv.Proto
import PqV.Impl.Stats
import PqV.Gen.Stats
/- Drv.Stats — `stats.*` stream. -/
namespace PqV.Drv
open PqV.Impl.Stats

def showOptInt : Option Int → String
  | none => "n"
  | some v => toString v

def handleStats (op : String) (a : Args) : String :=
  match op with
  | "col" =>
    let pages : List (List (Option Int)) := (a.list "pages").map (fun p => (splitTop p).map (fun c => if c == "n" then none else some (parseInt c)))
    let s := colStats pages
    s!"ok min={showOptInt s.min} max={showOptInt s.max} nulls={s.nullCount}"
  | "cat" =>
    let cats := a.ints "cats"
    let codes : List (Option Nat) := (a.list "codes").map (fun c => if c == "n" then none else some c.toNat!)
    let (lo, hi) := catStats PqV.Gen.Stats.catUsesCategoryOrder cats codes
    s!"ok min={showOptInt lo} max={showOptInt hi} nulls={(codes.filter Option.isNone).length}"
  | _ => s!"err unknown-op stats {op}"

end PqV.Drv
