import PqV.Drv.Filter
import PqV.Impl.RowFilter
/- Drv.RowFilter — `rowfilter.*` stream. -/
namespace PqV.Drv
open PqV.Impl.Prune PqV.Impl.RowFilter

def handleRowFilter (op : String) (a : Args) : String :=
  match op with
  | "eval" =>
    let groups := (a.list "filters").map (fun g => (splitTop g).map parseCond)
    let f : Filt := if a.nat "flat" != 0 then .flat (groups.headD []) else .nested groups
    let parts := a.nats "parts"
    let rows : List (List (Option Int)) := (a.list "rows").map (fun r => (splitTop r).map (fun c => if c == "n" then none else some (parseInt c)))
    -- sizes given: the repaired evaluation, a partition condition tested once per row group on the row group's first row
    let sizes := a.nats "sizes"
    let starts := sizes.foldl (fun (acc : List Nat × Nat) n => (acc.1 ++ [acc.2], acc.2 + n)) ([], 0)
    let rgSat : Nat → Cond → Bool := fun i c => evalCond c (rows.getD (starts.1.getD i 0) [])
    let sel := if (a.get? "sizes").isSome then columnFilterRG (fun c => parts.contains c) rgSat sizes f rows
               else columnFilter (fun c => parts.contains c) f rows
    s!"ok sel={showNats (sel.map fun b => if b then 1 else 0)}"
  | "slice" =>
    let sel := (a.nats "sel").map (· != 0)
    s!"ok out={showList ((sliceSel (a.nats "sizes") sel).map fun l => showNats (l.map fun b => if b then 1 else 0))}"
  | _ => s!"err unknown-op rowfilter {op}"

end PqV.Drv
