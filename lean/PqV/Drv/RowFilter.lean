import PqV.Drv.Filter
import PqV.Impl.RowFilter
/- Drv.RowFilter — `rowfilter.*` stream. -/
namespace PqV.Drv
open PqV.Impl.Prune PqV.Impl.RowFilter

def handleRowFilter (op : String) (a : Args) : String :=
  match op with
  | "eval" =>
    let groups := (a.list "filters").map (fun g => (splitTop g).map parseCond)
    let f : Filt := if a.nat "flat" != 0 then .flat (groups.headD []) else .nested groups
    let parts := a.nats "parts"
    let rows : List (List (Option Int)) := (a.list "rows").map (fun r => (splitTop r).map (fun c => if c == "n" then none else some (parseInt c)))
    let sel := columnFilter (fun c => parts.contains c) f rows
    s!"ok sel={showNats (sel.map fun b => if b then 1 else 0)}"
  | "slice" =>
    let sel := (a.nats "sel").map (· != 0)
    s!"ok out={showList ((sliceSel (a.nats "sizes") sel).map fun l => showNats (l.map fun b => if b then 1 else 0))}"
  | _ => s!"err unknown-op rowfilter {op}"

end PqV.Drv
