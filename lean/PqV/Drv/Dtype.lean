import PqV.Drv.Proto
import PqV.Impl.Dtypes
/- Drv.Dtype — `dtype.*` stream. -/
namespace PqV.Drv
open PqV.Impl.Dtypes

def handleDtype (op : String) (a : Args) : String :=
  match op with
  | "predict" =>
    let ct := a.str "ctype" "none"
    let base := typemap (a.str "ptype") (if ct == "none" then none else some ct) (a.nat "tlen")
    let rgs : List ChunkStat := (a.list "rgs").map fun r => match splitTop r with
      | [n, "x"] => ⟨n.toNat!, none⟩
      | [n, "m"] => ⟨n.toNat!, some none⟩
      | [n, k] => ⟨n.toNat!, some (some k.toNat!)⟩
      | _ => ⟨0, none⟩
    s!"ok base={base} dtype={predict base rgs (a.nat "pn" != 0)}"
  | _ => s!"err unknown-op dtype {op}"

end PqV.Drv
