/-
  Drv.Proto — line protocol helpers for the `pqv` driver (Appendix B of DESIGN.md).
  request := stream SP op (SP key '=' value)*
  value   := decimal | '-'decimal | 'x' hex-bytes | '[' value,* ']' (nesting allowed)
-/
namespace PqV.Drv

abbrev Args := List (String × String)

def parseArgs (toks : List String) : Args :=
  toks.filterMap fun t =>
    match t.splitOn "=" with
    | k :: rest@(_ :: _) => some (k, "=".intercalate rest)
    | _ => none

def Args.get? (a : Args) (k : String) : Option String := (a.find? (·.1 == k)).map (·.2)

def hexVal (c : Char) : Nat :=
  if '0' ≤ c ∧ c ≤ '9' then c.toNat - '0'.toNat
  else if 'a' ≤ c ∧ c ≤ 'f' then c.toNat - 'a'.toNat + 10
  else if 'A' ≤ c ∧ c ≤ 'F' then c.toNat - 'A'.toNat + 10 else 0

def parseHexChars : List Char → List Nat
  | a :: b :: rest => (hexVal a * 16 + hexVal b) :: parseHexChars rest
  | _ => []

def parseHex (s : String) : List Nat :=
  let cs := s.toList
  parseHexChars (match cs with | 'x' :: r => r | r => r)

def hexDigit (n : Nat) : Char := if n < 10 then Char.ofNat (48 + n) else Char.ofNat (87 + n)
def toHex (bs : List Nat) : String :=
  String.ofList ('x' :: bs.flatMap fun b => [hexDigit (b / 16 % 16), hexDigit (b % 16)])

def parseInt (s : String) : Int :=
  match s.toList with
  | '-' :: r => - ((String.ofList r).toNat!)
  | _ => s.toNat!

def Args.nat (a : Args) (k : String) (d : Nat := 0) : Nat :=
  match a.get? k with | some v => v.toNat?.getD d | none => d
def Args.int (a : Args) (k : String) (d : Int := 0) : Int :=
  match a.get? k with | some v => parseInt v | none => d
def Args.bytes (a : Args) (k : String) : List Nat :=
  match a.get? k with | some v => parseHex v | none => []
def Args.str (a : Args) (k : String) (d : String := "") : String := (a.get? k).getD d

/-- split a bracketed list at top-level commas -/
def splitTop (s : String) : List String :=
  let cs := s.toList
  let inner := match cs with
    | '[' :: r => r.dropLast
    | r => r
  let rec go (cs : List Char) (depth : Nat) (cur : List Char) (acc : List String) : List String :=
    match cs with
    | [] => if cur.isEmpty ∧ acc.isEmpty then [] else (String.ofList cur.reverse :: acc).reverse
    | c :: r =>
      if c == '[' then go r (depth + 1) (c :: cur) acc
      else if c == ']' then go r (depth - 1) (c :: cur) acc
      else if c == ',' ∧ depth == 0 then go r depth [] (String.ofList cur.reverse :: acc)
      else go r depth (c :: cur) acc
  go inner 0 [] []

def Args.ints (a : Args) (k : String) : List Int :=
  match a.get? k with | some v => (splitTop v).map parseInt | none => []
def Args.nats (a : Args) (k : String) : List Nat := (a.ints k).map Int.toNat
def Args.list (a : Args) (k : String) : List String :=
  match a.get? k with | some v => splitTop v | none => []

def showNats (l : List Nat) : String := "[" ++ ",".intercalate (l.map toString) ++ "]"
def showInts (l : List Int) : String := "[" ++ ",".intercalate (l.map toString) ++ "]"
def showList (l : List String) : String := "[" ++ ",".intercalate l ++ "]"

end PqV.Drv
