import PqV.Drv.Proto
import PqV.Spec.Thrift
import PqV.Impl.ThriftSer
/- Drv.Thrift — `thrift.*` stream.
   TVal text: [b,0|1] [i8,n] [i16,n] [i32,n] [i64,n] [d,bits] [y,xHEX] [l,ety,[items]] [s,[[id,val],...]]
   PyT  text: [n] [b,0|1] [i,n] [f,bits] [y,xHEX] [u,xHEX] [l,[items]] [d,marker,[i32ids],[[id,val],...]] -/
namespace PqV.Drv
open PqV.Spec PqV.Impl.ThriftSer

instance : Inhabited TVal := ⟨.bool false⟩
instance : Inhabited PyT := ⟨.none⟩

partial def parseTVal (s : String) : TVal :=
  match splitTop s with
  | ["b", v] => .bool (v != "0")
  | ["i8", v] => .i8 (parseInt v)
  | ["i16", v] => .i16 (parseInt v)
  | ["i32", v] => .i32 (parseInt v)
  | ["i64", v] => .i64 (parseInt v)
  | ["d", v] => .double v.toNat!
  | ["y", v] => .binary (parseHex v)
  | ["l", ety, items] => .list ety.toNat! ((splitTop items).map parseTVal)
  | ["s", fields] => .struct ((splitTop fields).map fun f => match splitTop f with
      | [id, v] => (id.toNat!, parseTVal v) | _ => (0, .bool false))
  | _ => .bool false

partial def showTVal : TVal → String
  | .bool b => s!"[b,{if b then 1 else 0}]"
  | .i8 n => s!"[i8,{n}]"
  | .i16 n => s!"[i16,{n}]"
  | .i32 n => s!"[i32,{n}]"
  | .i64 n => s!"[i64,{n}]"
  | .double b => s!"[d,{b}]"
  | .binary bs => s!"[y,{toHex bs}]"
  | .list ety items => s!"[l,{ety},{showList (items.map showTVal)}]"
  | .struct fs => s!"[s,{showList (fs.map fun (i, v) => s!"[{i},{showTVal v}]")}]"

partial def parsePyT (s : String) : PyT :=
  match splitTop s with
  | ["n"] => .none
  | ["b", v] => .bool (v != "0")
  | ["i", v] => .int (parseInt v)
  | ["f", v] => .float v.toNat!
  | ["y", v] => .bytes (parseHex v)
  | ["u", v] => .str (parseHex v)
  | ["l", items] => .list ((splitTop items).map parsePyT)
  | ["d", m, ids, es] =>
    let marker : Marker := if m == "1" then .all else if m == "2" then .ids ((splitTop ids).map (·.toNat!)) else .none
    .dict marker ((splitTop es).map fun f => match splitTop f with
      | [id, v] => (id.toNat!, parsePyT v) | _ => (0, .none))
  | _ => .none

partial def showPyT : PyT → String
  | .none => "[n]"
  | .bool b => s!"[b,{if b then 1 else 0}]"
  | .int n => s!"[i,{n}]"
  | .float b => s!"[f,{b}]"
  | .bytes bs => s!"[y,{toHex bs}]"
  | .str bs => s!"[u,{toHex bs}]"
  | .list items => s!"[l,{showList (items.map showPyT)}]"
  | .dict m es =>
    let (mk, ids) := match m with | .none => ("0", []) | .all => ("1", []) | .ids l => ("2", l)
    s!"[d,{mk},{showNats ids},{showList (es.map fun (i, v) => s!"[{i},{showPyT v}]")}]"

def handleThrift (op : String) (a : Args) : String :=
  match op with
  | "spec_enc" =>
    match parseTVal (a.str "v") with
    | .struct fs => s!"ok out={toHex (encFields 0 fs)}"
    | _ => "err not-a-struct"
  | "spec_dec" =>
    match decStruct (a.bytes "in") with
    | some (v, rest) => s!"ok v={showTVal v} consumed={(a.bytes "in").length - rest.length}"
    | none => "err invalid"
  | "write" =>
    match toBytes (parsePyT (a.str "v")) with
    | some bs => s!"ok out={toHex bs} size={toBytesSize (a.str "name") (parsePyT (a.str "v"))}"
    | none => "err type"
  | "read" =>
    match fromBuffer (a.bytes "in") with
    | some (v, rest) => s!"ok v={showPyT v} consumed={(a.bytes "in").length - rest.length}"
    | none => "err invalid"
  | _ => s!"err unknown-op thrift {op}"

end PqV.Drv
