import PqV.Drv.Proto
import PqV.Impl.Dataset
/- Drv.Fs — `fs.*` stream: append traces and crash outcomes. Directories travel as hex text. -/
namespace PqV.Drv
open PqV.Impl.Dataset

def dirOf (s : String) : String := String.ofList ((parseHex s).map (fun n => Char.ofNat n))

def parseRefs (a : Args) (k : String) : List RgRef :=
  (a.list k).map fun r => match splitTop r with
    | [d, id, rows] => { dir := dirOf d, id := id.toNat!, rows := (splitTop rows).map (·.toNat!) }
    | _ => { dir := "", id := 0, rows := [] }

def parseND (a : Args) (k : String) : NewData :=
  (a.list k).map fun rg => (splitTop rg).map fun piece => match splitTop piece with
    | [d, rows] => (dirOf d, (splitTop rows).map (·.toNat!))
    | _ => ("", [])

def showPath : Path → String
  | .part d id => s!"p:{toHex (d.toList.map Char.toNat)}:{id}"
  | .pmeta => "M"
  | .cmeta => "C"

def showOp : FsOp → String
  | .mkdir d => s!"m:{toHex (d.toList.map Char.toNat)}"
  | .openW p => s!"o:{showPath p}"
  | .write p _ => s!"w:{showPath p}"
  | .close p => s!"c:{showPath p}"

def fsOf (old : List RgRef) : FS :=
  (.pmeta, .refs old) :: (.cmeta, .refs []) :: old.map (fun r => (.part r.dir r.id, .data r.rows))

def handleFs (op : String) (a : Args) : String :=
  let old := parseRefs a "old"
  let nd := parseND a "nd"
  let part := a.nat "part" != 0
  match op with
  | "trace" => s!"ok ops={showList ((appendOps part old nd).map showOp)} offset={maxPart old}"
  | "crash" =>
    let fs := runOps (fsOf old) ((appendOps part old nd).take (a.nat "k"))
    match readDS fs with
    | some rows => s!"ok read={showNats rows}"
    | none => "ok read=none"
  | _ => s!"err unknown-op fs {op}"

end PqV.Drv
