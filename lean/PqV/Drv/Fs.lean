import PqV.Drv.Proto
import PqV.Impl.Dataset
import PqV.Impl.DatasetOps
/- Drv.Fs — `fs.*` stream: append traces and crash outcomes. Directories travel as hex text. -/
namespace PqV.Drv
open PqV.Impl.Dataset

def dirOf (s : String) : String := String.ofList ((parseHex s).map (fun n => Char.ofNat n))

def parseRefs (a : Args) (k : String) : List RgRef :=
  (a.list k).map fun r => match splitTop r with
    | [d, id, rows] => { dir := dirOf d, id := id.toNat!, rows := (splitTop rows).map (·.toNat!) }
    | _ => { dir := "", id := 0, rows := [] }

def parseND (a : Args) (k : String) : NewData :=
  (a.list k).map fun rg => (splitTop rg).map fun piece => match splitTop piece with
    | [d, rows] => (dirOf d, (splitTop rows).map (·.toNat!))
    | _ => ("", [])

def showPath : Path → String
  | .part d id => s!"p:{toHex (d.toList.map Char.toNat)}:{id}"
  | .pmeta => "M"
  | .cmeta => "C"

def showOp : FsOp → String
  | .mkdir d => s!"m:{toHex (d.toList.map Char.toNat)}"
  | .openW p => s!"o:{showPath p}"
  | .write p _ => s!"w:{showPath p}"
  | .close p => s!"c:{showPath p}"

def fsOf (old : List RgRef) : FS :=
  (.pmeta, .refs old) :: (.cmeta, .refs []) :: old.map (fun r => (.part r.dir r.id, .data r.rows))

def handleFs (op : String) (a : Args) : String :=
  let old := parseRefs a "old"
  let nd := parseND a "nd"
  let part := a.nat "part" != 0
  match op with
  | "trace" => s!"ok ops={showList ((appendOps part old nd).map showOp)} offset={maxPart old}"
  | "crash" =>
    let fs := runOps (fsOf old) ((appendOps part old nd).take (a.nat "k"))
    match readDS fs with
    | some rows => s!"ok read={showNats rows}"
    | none => "ok read=none"
  | _ => s!"err unknown-op fs {op}"

end PqV.Drv

namespace PqV.Drv
open PqV.Impl.Dataset PqV.Impl.DatasetOps

def parseNDs (s : String) : NewData :=
  (splitTop s).map fun rg => (splitTop rg).map fun piece => match splitTop piece with
    | [d, rows] => (dirOf d, (splitTop rows).map (·.toNat!))
    | _ => ("", [])

def showDS (ds : DS) : String :=
  let hexd (d : String) := toHex (d.toList.map Char.toNat)
  let fl := ds.files.map (fun f => (hexd f.1.1, f.1.2, f.2))
  -- canonical: sort files by (dir, id) text
  let key (t : String × Nat × List Nat) := t.1 ++ ":" ++ toString (1000000000 + t.2.1)
  let sorted := (fl.toArray.qsort (fun a b => key a < key b)).toList
  let sf := sorted.map (fun t => s!"[{t.1},{t.2.1},{showNats t.2.2}]")
  let sr := ds.refs.map (fun r => s!"[{hexd r.dir},{r.id},{showNats r.rows}]")
  s!"files={showList sf};refs={showList sr};agree={if agree ds then 1 else 0}"

def parseOp (op : String) : Option Op :=
  match splitTop op with
  | ["w", nd] => some (.write (parseNDs nd))
  | ["a", nd] => some (.append (parseNDs nd))
  | ["o", nd, sp] => some (.overwrite (parseNDs nd) (sp != "0"))
  | ["r", idxs, sp] => some (.remove ((splitTop idxs).map (·.toNat!)) (sp != "0"))
  | ["g", nd, sp] => some (.writeSorted (parseNDs nd) (sp != "0"))
  | ["s"] => some .sortNames
  | _ => none

def stepDS (ds : DS) (op : String) : Except String DS :=
  match parseOp op with
  | some o => step ds o
  | none => .error "bad-op"

def handleDs (op : String) (a : Args) : String :=
  match op with
  | "run" =>
    let ops := a.list "ops"
    let (_, outs) := ops.foldl (fun (st : Except String DS × List String) o =>
      match st.1 with
      | .error e => (.error e, st.2 ++ ["err"])
      | .ok ds => match stepDS ds o with
        | .ok ds' => (.ok ds', st.2 ++ [showDS ds'])
        | .error e => (.error e, st.2 ++ [s!"err:{e.replace " " "_"}"])) (.ok { files := [], refs := [] }, [])
    "ok steps=" ++ "|".intercalate outs
  | _ => s!"err unknown-op ds {op}"

end PqV.Drv
