import PqV.Drv.Proto
import PqV.Spec.File
/- Drv.File — `file.*` stream: the specification-level reader/validator on real file bytes. -/
namespace PqV.Drv
open PqV.Spec

def showCell : Cell → String
  | .null => "n"
  | .int n => toString n
  | .bytes b => toHex b

def showRow : Row → String
  | .none => "N"
  | .list es => showList (es.map showCell)

/-- a chunk's content: flat → cells; one-level repeated → assembled rows -/
def showChunk (leaves : List Leaf) (c : ChunkData) : String :=
  match leaves.find? (·.path == c.path) with
  | some l =>
    if l.maxRep = 0 then showList (c.cells.map showCell)
    else showList ((assemble (l.repDef - 1) (entries l.maxDef c.defs c.reps c.values)).map showRow)
  | none => "[]"

def handleFile (op : String) (a : Args) : String :=
  let file := (a.bytes "bytes").toArray
  match op with
  | "pages" =>
    match listPages file with
    | .ok ps => "ok pages=" ++ showList (ps.map fun (p, codec) =>
        s!"[{p.dataOff},{p.compSize},{p.uncompSize},{codec},{p.ptypeTag},{p.repLen + p.defLen},{if p.isCompressed then 1 else 0}]")
    | .error e => s!"err invalid {e.replace " " "_"}"
  | "decode" =>
    let payloads := (a.list "pl").map fun p => match splitTop p with
      | [off, b] => (off.toNat!, parseHex b) | _ => (0, [])
    match decodeFile file payloads with
    | .ok (total, cols, rgs) =>
      let rg := rgs.map fun r => s!"[{r.numRows},{showList (r.chunks.map (showChunk cols))}]"
      let metaS := cols.map fun l => s!"[{l.ptype},{match l.converted with | some c => (c : Int) | none => -1},{l.tsUnit},{l.maxDef},{l.typeLength},{l.maxRep},{l.repDef}]"
      let looseN := (rgs.map fun r => (r.chunks.map (·.loose)).sum).sum
      s!"ok loose={looseN} rows={total} cols={showList (cols.map fun l => toHex ((l.path.intersperse [46]).flatten))} meta={showList metaS} rgs={showList rg}"
    | .error e => s!"err invalid {e.replace " " "_"}"
  | "footer" =>
    match footerOf file (a.nat "meta" != 0) with
    | .ok (fmd, loc, flen) =>
      match (if a.nat "meta" == 1 then rowCountProblem fmd else none) with
      | some e => s!"err invalid {e.replace " " "_"}"
      | none => s!"ok loc={loc} len={flen}"
    | .error e => s!"err invalid {e.replace " " "_"}"
  | _ => s!"err unknown-op file {op}"

end PqV.Drv
