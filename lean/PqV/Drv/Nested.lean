import PqV.Drv.Proto
import PqV.Drv.File
import PqV.Impl.Assemble
import PqV.Gen.SchemaLevels
/- Drv.Nested — `nested.*` stream: record assembly, specification vs the model of `_assemble_objects`. -/
namespace PqV.Drv
open PqV.Spec PqV.Impl.Assemble

def parseCell (s : String) : Cell :=
  if s == "n" then .null else if s.startsWith "x" then .bytes (parseHex s) else .int s.toNat!

def showAFault : AFault → String
  | .index i len => s!"index_{i}_{len}"
  | .extendNone i => s!"extend-none_{i}"
  | .valIndex i len => s!"val-index_{i}_{len}"

def handleNested (op : String) (a : Args) : String :=
  match op with
  | "spec" =>
    let es := entries (a.nat "maxdef") (a.nats "defs") (a.nats "reps") ((a.list "vals").map parseCell)
    "ok rows=" ++ showList ((assemble (a.nat "o") es).map showRow)
  | "impl" =>
    let pages := (a.list "pages").map fun p => match splitTop p with
      | [d, r, v] => (((splitTop d).map String.toNat!).zip ((splitTop r).map String.toNat!), (splitTop v).map parseCell)
      | _ => ([], [])
    match readChunk (a.nat "nrows") (a.nat "null" != 0) (a.nat "maxdef") pages with
    | .ok rows => "ok rows=" ++ showList (rows.map showRow)
    | .error f => s!"err fault {showAFault f}"
  | "levels" =>
    let path := a.nats "path"
    s!"ok required={if PqV.Gen.SchemaLevels.isRequired path then 1 else 0} maxdef={PqV.Gen.SchemaLevels.maxDef path} maxrep={PqV.Gen.SchemaLevels.maxRep path}"
  | _ => s!"err unknown-op nested {op}"

end PqV.Drv
