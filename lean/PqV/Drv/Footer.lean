import PqV.Drv.Proto
import PqV.Impl.Footer
import PqV.Impl.Append
/- Drv.Footer — `footer.*` stream. -/
namespace PqV.Drv
open PqV.Impl.Footer

def handleFooter (op : String) (a : Args) : String :=
  match op with
  | "kv" =>
    let kvm : KV := (a.list "kvm").map fun p => match splitTop p with
      | [k, v] => (parseHex k, parseHex v) | _ => ([], [])
    let upd := (a.list "upd").map fun p => match splitTop p with
      | [k, v] => (parseHex k, some (parseHex v)) | [k] => (parseHex k, none) | _ => ([], none)
    let r := merge kvm upd
    s!"ok out={showList (r.map fun (k, v) => showList [toHex k, toHex v])}"
  | "rewrite" =>
    let f := a.bytes "file"
    let isMeta := a.nat "meta" != 0
    let r := rewrite (a.nat "trunc" != 0) isMeta f (a.bytes "nf")
    s!"ok out={toHex r} loc={footerLoc isMeta f}"
  | "append" => s!"ok out={toHex (PqV.Impl.Append.appendSimple (a.bytes "file") (a.bytes "rgs") (a.bytes "nf"))}"
  | _ => s!"err unknown-op footer {op}"

end PqV.Drv
