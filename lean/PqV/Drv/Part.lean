import PqV.Drv.Proto
import PqV.Impl.Partition
/- Drv.Part — `part.*` stream. -/
namespace PqV.Drv
open PqV.Impl.Partition

def handlePart (op : String) (a : Args) : String :=
  match op with
  | "groups" =>
    let rows : List Row := (a.list "rows").map (fun r => match splitTop r with
      | [id, k] => (id.toNat!, if k == "n" then none else some k.toNat!)
      | _ => (0, none))
    s!"ok groups={showList ((groups rows).map fun g => showNats g.2)}"
  | _ => s!"err unknown-op part {op}"

end PqV.Drv
