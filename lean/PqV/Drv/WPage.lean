import PqV.Drv.Nested
import PqV.Drv.File
import PqV.Spec.File
import PqV.Impl.WritePage
import PqV.Impl.ReadPage
/- Drv.WPage — `wpage.*` stream: the writer model's pages for one flat column chunk. -/
namespace PqV.Drv
open PqV.Spec PqV.Impl

def optN : Option Nat → String
  | some n => toString n
  | none => "-1"

/-- every page of every chunk stored in this file, with its row-group and column index -/
def chunkEncMeta (file : Array Nat) : Except String (List String) := do
  let (fmd, _, _) ← footerOf file false
  let mut out : List String := []
  let mut ri := 0
  for rg in listField fmd 4 do
    let mut ci := 0
    for c in listField rg 1 do
      let cm ← parseChunk c
      let st := match cm.encStats with
        | some l => showList (l.map fun (x : Nat × Nat × Nat) => s!"[{x.1},{x.2.1},{x.2.2}]")
        | none => "-1"
      out := out ++ [s!"[{ri},{ci},{showNats cm.encodings},{st},{optN cm.nullCount}]"]
      ci := ci + 1
    ri := ri + 1
  pure out

def pageMap (file : Array Nat) : Except String (List (Nat × Nat × PageInfo × Nat)) := do
  let (fmd, _, _) ← footerOf file false
  let mut out : List (Nat × Nat × PageInfo × Nat) := []
  let mut ri := 0
  for rg in listField fmd 4 do
    let mut ci := 0
    for c in listField rg 1 do
      let cm ← parseChunk c
      if cm.filePath.isNone then
        let start := match cm.dictOff with | some d => min d cm.dataOff | none => cm.dataOff
        let pages ← chunkPages file (cm.totalComp + 2) start (start + cm.totalComp) []
        out := out ++ pages.map (ri, ci, ·, cm.codec)
      ci := ci + 1
    ri := ri + 1
  pure out

def handleWPage (op : String) (a : Args) : String :=
  match op with
  | "chunk" =>
    let c : ColSpec := { ptype := a.nat "ptype", typeLength := a.nat "tl", hasNulls := a.nat "nulls" != 0, v2 := a.nat "v2" != 0,
                         dictItem := if a.nat "item" = 0 then none else some (a.nat "item") }
    let cats := (a.list "cats").map parseCell
    let pages := (a.list "pages").map fun p => (splitTop p).map parseCell
    let out := writerChunk c cats pages
    -- the specification reader on the model's own pages (the theorem `written_chunk_decodes` says what this is)
    let back := match decodePages (leafOf c) {} out with
      | .ok acc => if scatter (leafOf c).maxDef acc.defs acc.vals ==
            (if c.dictItem.isSome then pages.flatten.map (fun x => match x with | .int i => cats.getD i Cell.null | y => y) else pages.flatten)
            ∧ acc.loose = 0 then "same" else "differs"
      | .error e => "error:" ++ e.replace " " "_"
    "ok back=" ++ back ++ s!" nullcount={writerNullCount pages} encodings={showNats (writerEncodings c)} stats={showList ((writerEncStats c pages.length).map fun (x : Nat × Nat × Nat) => s!"[{x.1},{x.2.1},{x.2.2}]")}"
      ++ s!" metaok={if (encodingsProblem (writerEncodings c) (some (writerEncStats c pages.length)) (out.map fun (p, _) => (p.ptypeTag, p.encoding))).isNone then 1 else 0}"
      ++ " pages=" ++ showList (out.map fun (p, body) =>
      s!"[{p.ptypeTag},{p.numValues},{p.encoding},{optN p.numNulls},{optN p.numRows},{p.defLen},{toHex body}]")
  | "read" =>
    -- the model of core.read_data_page on one v1 page body
    match readDataPage (a.nat "required" != 0) (a.nat "maxdef") (a.nat "ptype") (a.nat "tl") (a.nat "enc") (a.nat "n")
        (a.nat "skip" != 0) (a.nat "selfmade" != 0) (a.bytes "body") with
    | none => "err fault"
    | some (defs, vals) =>
      let d := match defs with | none => "-1" | some l => showNats l
      match vals with
      | .plain vs => s!"ok defs={d} kind=plain vals={showList (vs.map showCell)}"
      | .indices ix => s!"ok defs={d} kind=indices vals={showInts ix}"
  | "pagemap" =>
    match pageMap (a.bytes "bytes").toArray with
    | .ok ps => "ok chunks=" ++ (match chunkEncMeta (a.bytes "bytes").toArray with | .ok l => showList l | .error _ => "[]") ++ " pages=" ++ showList (ps.map fun (ri, ci, p, codec) =>
        s!"[{ri},{ci},{p.ptypeTag},{p.numValues},{p.encoding},{optN p.numNulls},{optN p.numRows},{p.defLen},{p.dataOff},{p.compSize},{p.uncompSize},{codec},{if p.isCompressed then 1 else 0}]")
    | .error e => s!"err invalid {e.replace " " "_"}"
  | _ => s!"err unknown-op wpage {op}"

end PqV.Drv
