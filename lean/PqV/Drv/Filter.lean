import PqV.Drv.Proto
import PqV.Impl.Prune
/- Drv.Filter — `filter.*` stream: regenerated interval tests and the pruning model. -/
namespace PqV.Drv
open PqV.Py PqV.Gen.Filter PqV.Impl.Prune

def optOf (s : String) : Option Int :=
  match splitTop s with
  | [v] => some (parseInt v)
  | _ => none

def showPyBool : Py Bool → String
  | .ok true => "ok val=true"
  | .ok false => "ok val=false"
  | .error .typeError => "err type"
  | .error .indexError => "err key"
  | .error .valueError => "err invalid"

def opName (s : String) : String := s.replace "_" " "

def parseCond (s : String) : Cond :=
  match splitTop s with
  | [c, op, v, vs] => { col := c.toNat!, op := opName op, val := parseInt v, vals := (splitTop vs).map parseInt }
  | _ => { col := 0, op := "?", val := 0, vals := [] }

def parseChunk (s : String) : Chunk :=
  match splitTop s with
  | [c, nv, st] =>
    let stats : Option Stats := match splitTop st with
      | [nc, mx, mxv, mn, mnv] => some { nullCount := (optOf nc).map Int.toNat, max := optOf mx, maxValue := optOf mxv,
                                         min := optOf mn, minValue := optOf mnv }
      | _ => none
    { col := c.toNat!, numValues := nv.toNat!, stats }
  | _ => { col := 0, numValues := 0, stats := none }

def parseRG (s : String) : RowGroup :=
  match splitTop s with
  | [n, chunks, parts, hp] =>
    { numRows := n.toNat!, chunks := (splitTop chunks).map parseChunk,
      parts := (splitTop parts).map (fun p => match splitTop p with
        | [c, v] => (c.toNat!, parseInt v) | _ => (0, 0)),
      hasPath := hp != "0" }
  | _ => { numRows := 0, chunks := [], parts := [] }

def handleFilter (op : String) (a : Args) : String :=
  match op with
  | "val" => showPyBool (filter_val (opName (a.str "op")) (a.int "val") (a.ints "vals") (optOf (a.str "vmin" "[]")) (optOf (a.str "vmax" "[]")))
  | "in" => showPyBool (filter_in (a.ints "vals") (optOf (a.str "vmin" "[]")) (optOf (a.str "vmax" "[]")))
  | "not_in" => showPyBool (filter_not_in (a.ints "vals") (optOf (a.str "vmin" "[]")) (optOf (a.str "vmax" "[]")))
  | "keep" =>
    let rgs := (a.list "rgs").map parseRG
    let dnf := (a.list "dnf").map (fun g => (splitTop g).map parseCond)
    match filterRowGroups rgs dnf with
    | .ok idx => s!"ok idx={showNats idx}"
    | .error .typeError => "err type"
    | .error _ => "err other"
  | _ => s!"err unknown-op filter {op}"

end PqV.Drv
