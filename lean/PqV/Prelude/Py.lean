/-
  Prelude.Py — the small Python value universe and helper semantics that the Python→Lean
  translator (tools/translate_py.py) targets.  Scalars are `Int` (any linearly ordered scalar
  domain); `None` is `Option.none`; a comparison with `None` raises `TypeError` as in Python 3.
  Core Lean only.
-/
namespace PqV.Py

inductive PyErr where
  | typeError
  | indexError
  | valueError
  deriving Repr, DecidableEq

abbrev Py := Except PyErr

/-- run-time view of a scalar-or-None value -/
inductive PyVal where
  | none
  | int (i : Int)
  deriving Repr, DecidableEq

class ToPy (α : Type) where
  toPy : α → PyVal
export ToPy (toPy)

instance : ToPy Int := ⟨PyVal.int⟩
instance : ToPy Nat := ⟨fun n => PyVal.int n⟩
instance : ToPy (Option Int) := ⟨fun o => match o with | some i => .int i | .none => .none⟩
instance : ToPy PyVal := ⟨id⟩

def pyCmp (f : Int → Int → Bool) (a b : PyVal) : Py Bool :=
  match a, b with
  | .int x, .int y => .ok (f x y)
  | _, _ => .error .typeError

def pyLt (a b : PyVal) : Py Bool := pyCmp (fun x y => decide (x < y)) a b
def pyLe (a b : PyVal) : Py Bool := pyCmp (fun x y => decide (x ≤ y)) a b
def pyGt (a b : PyVal) : Py Bool := pyCmp (fun x y => decide (x > y)) a b
def pyGe (a b : PyVal) : Py Bool := pyCmp (fun x y => decide (x ≥ y)) a b
/-- `==` never raises: None == None, None != int -/
def pyEq (a b : PyVal) : Py Bool := .ok (decide (a = b))
def pyNe (a b : PyVal) : Py Bool := .ok (decide (a ≠ b))
def pyIsNone (a : PyVal) : Py Bool := .ok (decide (a = .none))
def pyIsNotNone (a : PyVal) : Py Bool := .ok (decide (a ≠ .none))

/-- `x in values` for a list of ints (None is never in it) -/
def pyIn (a : PyVal) (l : List Int) : Py Bool :=
  match a with
  | .int x => .ok (l.contains x)
  | .none => .ok false
def pyNotIn (a : PyVal) (l : List Int) : Py Bool := (pyIn a l).map not

def pyAnd (a : Py Bool) (b : Py Bool) : Py Bool := a >>= fun x => if x then b else .ok false
def pyOr (a : Py Bool) (b : Py Bool) : Py Bool := a >>= fun x => if x then .ok true else b
def pyNot (a : Py Bool) : Py Bool := a.map not

/-- insertion sort: `sorted(values)` -/
def insertSorted (x : Int) : List Int → List Int
  | [] => [x]
  | y :: ys => if x ≤ y then x :: y :: ys else y :: insertSorted x ys
def pySorted (l : List Int) : List Int := l.foldr insertSorted []

/-- `l[i]` with Python negative indexing -/
def pyIndex (l : List Int) (i : Int) : Py PyVal :=
  let j : Int := if i < 0 then i + l.length else i
  if j < 0 then .error .indexError else
  match l[j.toNat]? with
  | some v => .ok (.int v)
  | none => .error .indexError

/-- `np.searchsorted(l, v, side='left')`: number of elements `< v` (l sorted) -/
def searchsortedLeft (l : List Int) (v : PyVal) : Py Nat :=
  match v with
  | .int x => .ok (l.filter (fun y => decide (y < x))).length
  | .none => .error .typeError
/-- `side='right'`: number of elements `≤ v` -/
def searchsortedRight (l : List Int) (v : PyVal) : Py Nat :=
  match v with
  | .int x => .ok (l.filter (fun y => decide (y ≤ x))).length
  | .none => .error .typeError

/-- statement-level `if c: A else: B` with a raising condition -/
def pyIf {α} (c : Py Bool) (t e : Py α) : Py α := c >>= fun b => if b then t else e

@[simp] theorem ok_bind {ε α β : Type} (a : α) (f : α → Except ε β) : (Except.ok a >>= f) = f a := rfl
@[simp] theorem error_bind {ε α β : Type} (e : ε) (f : α → Except ε β) :
    ((Except.error e : Except ε α) >>= f) = Except.error e := rfl
@[simp] theorem map_ok {ε α β : Type} (f : α → β) (a : α) :
    Except.map f (Except.ok a : Except ε α) = Except.ok (f a) := rfl
@[simp] theorem map_error {ε α β : Type} (f : α → β) (e : ε) :
    Except.map f (Except.error e : Except ε α) = Except.error e := rfl

@[simp] theorem ite_ok {ε α : Type} {c : Prop} [Decidable c] (a b : α) :
    (if c then (Except.ok a : Except ε α) else Except.ok b) = Except.ok (if c then a else b) := by
  split <;> rfl

end PqV.Py
