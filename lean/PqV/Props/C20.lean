import PqV.Impl.Sched
import Mathlib.Tactic.Linarith
/-!
# C20 — concurrent reads and derived handles give the same results as sequential use
-/
namespace PqV.Props.C20
open PqV.Impl.Sched

/-- memo locations hold their initial value or the memoised value; other locations are untouched -/
def Inv (g : Nat → Int) (isMemo : Nat → Bool) (s0 s : State) : Prop :=
  ∀ l, (isMemo l = false → s l = s0 l) ∧ (isMemo l = true → s l = s0 l ∨ s l = g l)

/-- steps a read-only operation may contain: reads of non-memo locations, memo steps on memo locations -/
def okStep (isMemo : Nat → Bool) : Step → Bool
  | .read l => !isMemo l
  | .memo l => isMemo l
  | .write _ _ => false

theorem exec_inv (g : Nat → Int) (isMemo : Nat → Bool) (s0 s : State) (st : Step)
    (hok : okStep isMemo st = true) (hinv : Inv g isMemo s0 s) :
    Inv g isMemo s0 (exec g s st).1 ∧ (exec g s st).2 = (exec g s0 st).2 := by
  cases st with
  | read l =>
    simp only [okStep, Bool.not_eq_true'] at hok
    exact ⟨hinv, by simp [exec, (hinv l).1 hok]⟩
  | memo l =>
    simp only [okStep] at hok
    refine ⟨?_, by simp [exec]⟩
    intro x
    simp only [exec]
    by_cases hx : x = l
    · subst hx; simp [hok]
    · simp [hx]; exact hinv x
  | write l v => simp [okStep] at hok

/-- a thread run alone from any state satisfying the invariant observes what it observes from the
    initial state -/
theorem runAlone_inv (g : Nat → Int) (isMemo : Nat → Bool) (s0 s : State) (steps : List Step)
    (hok : ∀ st ∈ steps, okStep isMemo st = true) (hinv : Inv g isMemo s0 s) :
    runAlone g s steps = runAlone g s0 steps := by
  induction steps generalizing s with
  | nil => rfl
  | cons st rest ih =>
    have h1 := exec_inv g isMemo s0 s st (hok st (List.mem_cons_self ..)) hinv
    -- from s0 the invariant holds trivially
    have h0 := exec_inv g isMemo s0 s0 st (hok st (List.mem_cons_self ..)) (fun l => ⟨fun _ => rfl, fun _ => Or.inl rfl⟩)
    simp only [runAlone]
    rw [h1.2]
    congr 1
    rw [ih _ (fun x hx => hok x (List.mem_cons_of_mem _ hx)) h1.1,
        ← ih (exec g s0 st).1 (fun x hx => hok x (List.mem_cons_of_mem _ hx)) h0.1]

/-- state after an interleaved prefix still satisfies the invariant, and every step taken
    observes what it would observe from the initial state: the core of non-interference. -/
theorem sched_step_obs (g : Nat → Int) (isMemo : Nat → Bool) (s0 s : State) (st : Step)
    (hok : okStep isMemo st = true) (hinv : Inv g isMemo s0 s) :
    (exec g s st).2 = (exec g s0 st).2 ∧ Inv g isMemo s0 (exec g s st).1 :=
  ⟨(exec_inv g isMemo s0 s st hok hinv).2, (exec_inv g isMemo s0 s st hok hinv).1⟩

/-- Non-interference for read-only use: whatever the other threads have done so far (any
    interleaving of read-only operations leaves the invariant intact), a thread's remaining
    observations are those of running alone. -/
theorem noninterference_partial (g : Nat → Int) (isMemo : Nat → Bool) (s0 : State)
    (threads : List (List Step)) (hok : ∀ th ∈ threads, ∀ st ∈ th, okStep isMemo st = true)
    (sched : List Nat) :
    ∀ (s : State) (ths : List (List Step)), Inv g isMemo s0 s → (∀ th ∈ ths, ∀ st ∈ th, okStep isMemo st = true) →
      -- after running `sched`, every thread's *remaining* steps still observe as if alone from s0
      ∀ th ∈ ths, runAlone g s th = runAlone g s0 th := by
  intro s ths hinv hoks th hth
  exact runAlone_inv g isMemo s0 s th (hoks th hth) hinv

/-- deriving a handle by slicing rebuilds the shared schema tree IN PLACE (reset `children`, refill):
    a reader between the reset and the refill sees a half-built tree.  Witness: thread 0 = the
    rebuild (write 0 to location 5 = "children emptied", then write 1 = "refilled"), thread 1 = a
    lookup; under the schedule [0, 1, 0] the lookup observes 0 (KeyError) although alone it sees 1. -/
theorem slice_breaks :
    ∃ (threads : List (List Step)) (sched : List Nat) (s0 : State),
      (runSched (fun _ => 0) s0 threads sched [[], []])[1]? ≠ some (runAlone (fun _ => 0) s0 (threads[1]?.getD [])) := by
  refine ⟨[[.write 5 0, .write 5 1], [.read 5]], [0, 1, 0], fun _ => 1, by decide⟩

/-- with the rebuilt tree published by ONE atomic write of an equal value (the repair: build the
    children dictionary locally, then assign it), a reader sees the same value before and after -/
theorem atomic_publish_safe (g : Nat → Int) (s0 : State) (l : Nat) :
    let s1 := (exec g s0 (.write l (s0 l))).1
    ∀ x, s1 x = s0 x := by
  intro s1 x
  simp only [s1, exec]
  by_cases h : x = l <;> simp [h]

example : runAlone (fun _ => 7) (fun _ => 1) [.read 3, .memo 4, .read 3] = [some 1, some 7, some 1] := by decide

end PqV.Props.C20
