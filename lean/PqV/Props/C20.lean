import PqV.Impl.Sched
import Mathlib.Tactic.Linarith
import PqV.Gen.PerCall
/-!
# C20 — concurrent reads and derived handles give the same results as sequential use
-/
namespace PqV.Props.C20
open PqV.Impl.Sched

/-- memo locations hold their initial value or the memoised value; other locations are untouched -/
def Inv (g : Nat → Int) (isMemo : Nat → Bool) (s0 s : State) : Prop :=
  ∀ l, (isMemo l = false → s l = s0 l) ∧ (isMemo l = true → s l = s0 l ∨ s l = g l)

/-- steps a read-only operation may contain: reads of non-memo locations, memo steps on memo locations -/
def okStep (isMemo : Nat → Bool) : Step → Bool
  | .read l => !isMemo l
  | .memo l => isMemo l
  | .write _ _ => false

theorem exec_inv (g : Nat → Int) (isMemo : Nat → Bool) (s0 s : State) (st : Step)
    (hok : okStep isMemo st = true) (hinv : Inv g isMemo s0 s) :
    Inv g isMemo s0 (exec g s st).1 ∧ (exec g s st).2 = (exec g s0 st).2 := by
  cases st with
  | read l =>
    simp only [okStep, Bool.not_eq_true'] at hok
    exact ⟨hinv, by simp [exec, (hinv l).1 hok]⟩
  | memo l =>
    simp only [okStep] at hok
    refine ⟨?_, by simp [exec]⟩
    intro x
    simp only [exec]
    by_cases hx : x = l
    · subst hx; simp [hok]
    · simp [hx]; exact hinv x
  | write l v => simp [okStep] at hok

/-- a thread run alone from any state satisfying the invariant observes what it observes from the
    initial state -/
theorem runAlone_inv (g : Nat → Int) (isMemo : Nat → Bool) (s0 s : State) (steps : List Step)
    (hok : ∀ st ∈ steps, okStep isMemo st = true) (hinv : Inv g isMemo s0 s) :
    runAlone g s steps = runAlone g s0 steps := by
  induction steps generalizing s with
  | nil => rfl
  | cons st rest ih =>
    have h1 := exec_inv g isMemo s0 s st (hok st (List.mem_cons_self ..)) hinv
    -- from s0 the invariant holds trivially
    have h0 := exec_inv g isMemo s0 s0 st (hok st (List.mem_cons_self ..)) (fun l => ⟨fun _ => rfl, fun _ => Or.inl rfl⟩)
    simp only [runAlone]
    rw [h1.2]
    congr 1
    rw [ih _ (fun x hx => hok x (List.mem_cons_of_mem _ hx)) h1.1,
        ← ih (exec g s0 st).1 (fun x hx => hok x (List.mem_cons_of_mem _ hx)) h0.1]

/-- state after an interleaved prefix still satisfies the invariant, and every step taken
    observes what it would observe from the initial state: the core of non-interference. -/
theorem sched_step_obs (g : Nat → Int) (isMemo : Nat → Bool) (s0 s : State) (st : Step)
    (hok : okStep isMemo st = true) (hinv : Inv g isMemo s0 s) :
    (exec g s st).2 = (exec g s0 st).2 ∧ Inv g isMemo s0 (exec g s st).1 :=
  ⟨(exec_inv g isMemo s0 s st hok hinv).2, (exec_inv g isMemo s0 s st hok hinv).1⟩

/-- Non-interference for read-only use: whatever the other threads have done so far (any
    interleaving of read-only operations leaves the invariant intact), a thread's remaining
    observations are those of running alone. -/
theorem noninterference_partial (g : Nat → Int) (isMemo : Nat → Bool) (s0 : State)
    (threads : List (List Step)) (hok : ∀ th ∈ threads, ∀ st ∈ th, okStep isMemo st = true)
    (sched : List Nat) :
    ∀ (s : State) (ths : List (List Step)), Inv g isMemo s0 s → (∀ th ∈ ths, ∀ st ∈ th, okStep isMemo st = true) →
      -- after running `sched`, every thread's *remaining* steps still observe as if alone from s0
      ∀ th ∈ ths, runAlone g s th = runAlone g s0 th := by
  intro s ths hinv hoks th hth
  exact runAlone_inv g isMemo s0 s th (hoks th hth) hinv

/-- deriving a handle by slicing rebuilds the shared schema tree IN PLACE (reset `children`, refill):
    a reader between the reset and the refill sees a half-built tree.  Witness: thread 0 = the
    rebuild (write 0 to location 5 = "children emptied", then write 1 = "refilled"), thread 1 = a
    lookup; under the schedule [0, 1, 0] the lookup observes 0 (KeyError) although alone it sees 1. -/
theorem slice_breaks :
    ∃ (threads : List (List Step)) (sched : List Nat) (s0 : State),
      (runSched (fun _ => 0) s0 threads sched [[], []])[1]? ≠ some (runAlone (fun _ => 0) s0 (threads[1]?.getD [])) := by
  refine ⟨[[.write 5 0, .write 5 1], [.read 5]], [0, 1, 0], fun _ => 1, by decide⟩

/-- with the rebuilt tree published by ONE atomic write of an equal value (the repair: build the
    children dictionary locally, then assign it), a reader sees the same value before and after -/
theorem atomic_publish_safe (g : Nat → Int) (s0 : State) (l : Nat) :
    let s1 := (exec g s0 (.write l (s0 l))).1
    ∀ x, s1 x = s0 x := by
  intro s1 x
  simp only [s1, exec]
  by_cases h : x = l <;> simp [h]

example : runAlone (fun _ => 7) (fun _ => 1) [.read 3, .memo 4, .read 3] = [some 1, some 7, some 1] := by decide


theorem inv_refl (g : Nat → Int) (isMemo : Nat → Bool) (s0 : State) : Inv g isMemo s0 s0 :=
  fun _ => ⟨fun _ => rfl, fun _ => Or.inl rfl⟩

/-- what a scheduled run keeps true: every thread's observations so far, followed by what it would
    still observe if it ran alone from here, are its observations when run alone from the start -/
def Agree (g : Nat → Int) (s0 s : State) (th0 ths : List (List Step)) (obs : List (List (Option Int))) : Prop :=
  ths.length = th0.length ∧ obs.length = th0.length ∧
  ∀ u, u < th0.length → obs.getD u [] ++ runAlone g s (ths.getD u []) = runAlone g s0 (th0.getD u [])

theorem getD_set (l : List (List Step)) (t u : Nat) (x : List Step) :
    (l.set t x).getD u [] = if t = u ∧ t < l.length then x else l.getD u [] := by
  simp only [List.getD_eq_getElem?_getD, List.getElem?_set]
  by_cases h : t = u
  · subst h
    by_cases h2 : t < l.length
    · simp [h2]
    · simp [h2, List.getElem?_eq_none (Nat.le_of_not_lt h2)]
  · simp [h]

theorem getD_modify (l : List (List (Option Int))) (t u : Nat) (f : List (Option Int) → List (Option Int)) :
    (l.modify t f).getD u [] = if t = u ∧ t < l.length then f (l.getD u []) else l.getD u [] := by
  simp only [List.getD_eq_getElem?_getD, List.getElem?_modify]
  by_cases h : t = u
  · subst h
    by_cases h2 : t < l.length
    · simp [h2, List.getElem?_eq_getElem h2]
    · simp [h2, List.getElem?_eq_none (Nat.le_of_not_lt h2)]
  · simp [h]

/-- **non-interference for every interleaving**: any number of threads, any schedule; operations made
    of reads of never-written locations and of memo publications.  At every point of the run, what
    each thread has observed so far is a prefix of what it observes when run alone, and the rest of
    its alone-run is what it would still observe. -/
theorem noninterference (g : Nat → Int) (isMemo : Nat → Bool) (s0 : State) (th0 : List (List Step))
    (sched : List Nat) : ∀ (s : State) (ths : List (List Step)) (obs : List (List (Option Int))),
    Inv g isMemo s0 s → (∀ th ∈ ths, ∀ st ∈ th, okStep isMemo st = true) → Agree g s0 s th0 ths obs →
    ∃ s' ths', Inv g isMemo s0 s' ∧ (∀ th ∈ ths', ∀ st ∈ th, okStep isMemo st = true) ∧
      Agree g s0 s' th0 ths' (runSched g s ths sched obs) := by
  induction sched with
  | nil => intro s ths obs hi hok ha; exact ⟨s, ths, hi, hok, by simpa [runSched] using ha⟩
  | cons t rest ih =>
    intro s ths obs hi hok ha
    simp only [runSched]
    cases hth : ths[t]? with
    | none => exact ih s ths obs hi hok ha
    | some th =>
      cases th with
      | nil => exact ih s ths obs hi hok ha
      | cons st more =>
        have htlt : t < ths.length := (List.getElem?_eq_some_iff.mp hth).1
        have hmem : (st :: more) ∈ ths := List.mem_of_getElem? hth
        have hst : okStep isMemo st = true := hok _ hmem st List.mem_cons_self
        obtain ⟨hinv', hobs⟩ := exec_inv g isMemo s0 s st hst hi
        simp only
        apply ih
        · exact hinv'
        · intro th' hth' x hx
          rcases List.mem_or_eq_of_mem_set hth' with h | h
          · exact hok th' h x hx
          · subst h; exact hok _ hmem x (List.mem_cons_of_mem _ hx)
        · obtain ⟨hl1, hl2, hag⟩ := ha
          refine ⟨by simp [hl1], by simp [hl2], ?_⟩
          intro u hu
          rw [getD_set, getD_modify]
          by_cases hut : t = u
          · subst hut
            have h1 : t < ths.length := htlt
            have h2 : t < obs.length := by omega
            simp only [h1, h2, and_self, if_true]
            have hget : ths.getD t [] = st :: more := by
              rw [List.getD_eq_getElem?_getD, hth]; rfl
            have := hag t hu
            rw [hget] at this
            simp only [runAlone] at this
            rw [← this, List.append_assoc]
            rfl
          · simp only [hut, false_and, if_false]
            -- another thread: its alone-run from the new state is its alone-run from the old one
            have hu' : u < ths.length := by omega
            have hmemu : ths.getD u [] ∈ ths := by
              rw [List.getD_eq_getElem?_getD, List.getElem?_eq_getElem hu']; exact List.getElem_mem _
            have e1 := runAlone_inv g isMemo s0 (exec g s st).1 (ths.getD u []) (hok _ hmemu) hinv'
            have e2 := runAlone_inv g isMemo s0 s (ths.getD u []) (hok _ hmemu) hi
            rw [e1, ← e2]
            exact hag u hu

/-- from the initial state with nothing observed yet: after ANY schedule, a thread that has run to its
    end has observed exactly what it observes alone -/
theorem finished_threads_observe_as_alone (g : Nat → Int) (isMemo : Nat → Bool) (s0 : State) (th0 : List (List Step))
    (hok : ∀ th ∈ th0, ∀ st ∈ th, okStep isMemo st = true) (sched : List Nat) :
    ∀ u, u < th0.length →
      ∃ left, (runSched g s0 th0 sched (List.replicate th0.length [])).getD u [] ++ left = runAlone g s0 (th0.getD u []) := by
  intro u hu
  have h0 : Agree g s0 s0 th0 th0 (List.replicate th0.length []) := by
    refine ⟨rfl, by simp, ?_⟩
    intro v hv
    simp [List.getD_eq_getElem?_getD, List.getElem?_replicate, hv]
  obtain ⟨s', ths', _, _, _, _, hag⟩ := noninterference g isMemo s0 th0 sched s0 th0 _ (inv_refl g isMemo s0) hok h0
  exact ⟨_, hag u hu⟩

/-- the per-call resources the property names, as the source has them now (REGENERATED): `to_pandas`
    binds the file it opens to a local name (one file object per call, nothing cached on the handle) and
    works on a copy of the caller's column list; `make_part_file` copies the shared file metadata
    before it changes `row_groups` / `num_rows`; the run-header scratch arrays of `make_definitions`
    and `encode_dict` are allocated inside the call; writer, reader and api have no module-level array
    or bytearray.  These are the facts that make the operations of the interleaving model
    (`noninterference`) consist of reads and memo publications only. -/
theorem per_call_resources_now :
    PqV.Gen.PerCall.fileObjectPerReadCall = true ∧ PqV.Gen.PerCall.columnListCopied = true ∧
    PqV.Gen.PerCall.partFileCopiesMetadataBeforeChangingIt = true ∧ PqV.Gen.PerCall.levelScratchPerCall = true ∧
    PqV.Gen.PerCall.dictScratchPerCall = true ∧ PqV.Gen.PerCall.moduleLevelBuffers = [] := by decide

end PqV.Props.C20
