import PqV.Lemmas.Assemble
import PqV.Gen.SchemaLevels
/-!
# C15 — LIST and MAP columns are assembled into the right per-row lists and dicts

`Spec.Dremel.assemble` is standard record assembly (the oracle of harness/c15.py, also used by the
Lean reader that certifies the nested test files); `Impl.Assemble` is the code-shaped model of
`_assemble_objects` and of `read_col`'s page chaining, tied to the compiled kernel by the
`nested.impl` correspondence stream and to core.py by the regenerated `Gen.Nested` constants.
-/
namespace PqV.Props.C15
open PqV.Spec PqV.Impl.Assemble

/-- **what record assembly means**: shredding any list of rows (null rows, empty collections, null
    elements, any lengths) and assembling the entries gives the rows back, in order. -/
theorem assemble_inverts_shredding (o maxDef : Nat) (h : o < maxDef) (rows : List Row)
    (hok : ∀ r ∈ rows, r.ok o maxDef = true) :
    assemble o (encodeRows o maxDef rows) = rows := assemble_encodeRows o maxDef h rows hok

/-- **page boundaries anywhere** (also inside a row): assembling the concatenation of two pages is
    continuing the assembly of the first page with the entries of the second. -/
theorem pages_compose (o : Nat) (p1 p2 : List Entry) :
    assemble o (p1 ++ p2) = p2.foldl (pushEntry o) (assemble o p1) := assemble_append o p1 p2

/-- the regenerated call-site facts the model relies on hold for the current source:
    the row index advances by the records a page starts, and the MAP key leaf is found by its name -/
theorem chain_by_started_records_now : PqV.Gen.Nested.chainByZeros = true := by decide
theorem map_key_by_leaf_name_now : PqV.Gen.Nested.keyByLeafName = true := by decide
/-- the translator recognised the statements these two facts are read from (it fails soft so that the driver keeps building) -/
theorem nested_facts_recognised_now : PqV.Gen.Nested.recognised = true := by decide

/-- **whole-row pages** (any number of pages, cut at row starts; both chaining rules): the model of
    `read_col` + `_assemble_objects` stores exactly the rows, in order. -/
theorem pages_of_whole_rows {o maxDef : Nat} {null : Bool} (h : Sch o maxDef null) (pages : List (List Row))
    (hp : ∀ p ∈ pages, p ≠ [] ∧ ∀ r ∈ p, r.ok o maxDef = true) :
    readChunk pages.flatten.length null maxDef (pages.map (pageOf o maxDef)) = .ok pages.flatten :=
  readChunk_rows h pages hp

/-- **pages cut anywhere — partial**: whenever every continuation that opens a page carries at
    least one value (`PagesOk`), the model returns exactly record assembly of the whole entry
    stream.  The excluded case is the known finding, `continuation_without_value_fails` below. -/
theorem model_refines_assembly_partial {o maxDef : Nat} {null : Bool} (h : Sch o maxDef null) (pages : List Page)
    (hok : PagesOk o maxDef [] pages) :
    readChunk (newRows pages) null maxDef (pages.map (gpageOf o maxDef))
      = .ok (assemble o (pages.flatMap (·.entries o maxDef))) :=
  readChunk_refines_partial h chain_by_started_records_now pages hok

/-! ### non-vacuity and the known kernel finding -/
example : Sch 1 3 true := ⟨by decide, by decide, by decide⟩
example : PagesOk 1 3 [] [⟨[], [Row.list [Cell.int 5, Cell.null]]⟩, ⟨[Cell.null, Cell.int 6], [Row.none, Row.list []]⟩] := by
  refine ⟨Or.inl ⟨rfl, by simp⟩, by simp, by decide, Or.inr ⟨by decide, [], [Cell.int 5, Cell.null], by simp [joinPage, extendLast_nil]⟩, ?_, by decide, trivial⟩
  intro c hc; intro hcn; decide
example : ∀ r ∈ [Row.none, Row.list [], Row.list [Cell.int 1, Cell.null]], r.ok 1 3 = true := by decide
example : assemble 1 (encodeRows 1 3 [Row.none, Row.list [], Row.list [Cell.int 1, Cell.null]])
    = [Row.none, Row.list [], Row.list [Cell.int 1, Cell.null]] := by decide

def rowsOf : A (List Row) → Option (List Row)
  | .ok r => some r
  | .error _ => none

/-- a row split across two pages is put back together when the continuation carries a value … -/
theorem continuation_with_value_ok :
    rowsOf (readChunk 2 true 3 [([(3, 0), (2, 1)], [Cell.int 5]), ([(3, 1), (3, 0)], [Cell.int 6, Cell.int 7])])
      = some [Row.list [Cell.int 5, Cell.null, Cell.int 6], Row.list [Cell.int 7]] := by decide

/-- … but NOT when it carries only null elements (known finding C15-continuation-without-value):
    the model of `_assemble_objects` moves the null into the next row, record assembly does not. -/
theorem continuation_without_value_fails :
    rowsOf (readChunk 2 true 3 [([(3, 0)], [Cell.int 5]), ([(2, 1), (3, 0)], [Cell.int 7])])
      = some [Row.list [Cell.int 5], Row.list [Cell.null, Cell.int 7]] ∧
    assemble 1 (entries 3 [3, 2, 3] [0, 1, 0] [Cell.int 5, Cell.int 7])
      = [Row.list [Cell.int 5, Cell.null], Row.list [Cell.int 7]] := by decide

/-- with the repaired chaining a page that only continues a row no longer shifts later rows … -/
theorem page_only_continuation_ok :
    rowsOf (readChunk 2 true 2 [([(2, 0)], [Cell.int 1]), ([(2, 1)], [Cell.int 2]), ([(2, 0)], [Cell.int 3])])
      = some [Row.list [Cell.int 1, Cell.int 2], Row.list [Cell.int 3]] := by decide


section schemaLevels
open PqV.Gen.SchemaLevels

/-- the three repetition-type tests of `SchemaHelper` as the source has them now (REGENERATED):
    every non-REQUIRED element makes a path not required and adds a definition level, exactly the
    REPEATED elements add a repetition level -/
theorem level_tests_now : recognised = true ∧ ∀ rt, rt < 3 →
    reqTest rt = decide (rt ≠ 0) ∧ defTest rt = decide (rt ≠ 0) ∧ repTest rt = decide (rt = 2) := by decide

/-- **definition levels are skipped exactly when there are none**: `is_required(path)` (which makes
    `read_def` skip the level block of a v1 page) holds iff the path's maximum definition level is 0 —
    for every path, in particular for REQUIRED lists of REQUIRED elements, whose REPEATED ancestor
    carries a definition level. -/
theorem required_iff_no_definition_levels (path : List Nat) : isRequired path = decide (maxDef path = 0) := by
  induction path with
  | nil => rfl
  | cons rt rest ih =>
    simp only [isRequired, maxDef, List.all_cons, List.filter_cons] at ih ⊢
    by_cases h : rt = 0
    · subst h
      simp [reqTest, defTest] at ih ⊢
      exact ih
    · have h1 : reqTest rt = true := by simp [reqTest, h]
      have h2 : defTest rt = true := by simp [defTest, h]
      simp [h1, h2]

/-- repetition levels never exceed definition levels (every REPEATED element is non-REQUIRED) -/
theorem maxRep_le_maxDef (path : List Nat) : maxRep path ≤ maxDef path := by
  induction path with
  | nil => simp [maxRep, maxDef]
  | cons rt rest ih =>
    simp only [maxRep, maxDef, List.filter_cons] at ih ⊢
    by_cases h : rt = 2
    · subst h; simp [repTest, defTest]; omega
    · have : repTest rt = false := by simp [repTest, h]
      simp only [this, Bool.false_eq_true, if_false]
      split <;> simp <;> omega

example : isRequired [0, 2, 0] = false ∧ maxDef [0, 2, 0] = 1 ∧ maxRep [0, 2, 0] = 1 := by decide

end schemaLevels

end PqV.Props.C15
