import PqV.Impl.DatasetOps
import PqV.Lemmas.Dataset
import PqV.Lemmas.DatasetInv
/-!
# C09 — dataset edits follow a simple model; metadata and directory agree

`Impl.DatasetOps` is the state machine of multi-file dataset edits, validated step by step against
the real directory and `_metadata` over random histories (stream `ds.run`).  `content` is what a
read returns per metadata order: (partition directory, rows) of every row group.
-/
namespace PqV.Props.C09
open PqV.Impl.Dataset PqV.Impl.DatasetOps

/-- an empty dataset agrees -/
theorem agree_init : agree { files := [], refs := [] } = true := by decide

/-- append adds rows (at the end, nothing else changes in what is read) -/
theorem append_adds (ds : DS) (nd : NewData) :
    content (addNew ds nd) = content ds ++ (newRefs (maxPart ds.refs) 0 nd).map (fun r => (r.dir, r.rows)) := by
  simp [content, addNew]

/-- what the new references carry is exactly the new data, piece by piece, in order -/
theorem newRefs_content (off : Nat) (nd : NewData) (i : Nat) :
    (newRefs off i nd).map (fun r => (r.dir, r.rows)) = nd.flatMap id := by
  induction nd generalizing i with
  | nil => rfl
  | cons pieces rest ih =>
    simp only [newRefs, List.map_append, List.map_map, List.flatMap_cons, id, ih]
    congr 1
    induction pieces with
    | nil => rfl
    | cons p ps ihp => simp [ihp]

theorem zipIdx_filter_map {α β : Type} (f : α → β) (keep : Nat → Bool) (l : List α) (n : Nat) :
    ((l.zipIdx n).filter (fun p => keep p.2)).map (fun p => f p.1)
      = (((l.map f).zipIdx n).filter (fun p => keep p.2)).map (·.1) := by
  induction l generalizing n with
  | nil => rfl
  | cons a t ih =>
    simp only [List.zipIdx_cons, List.map_cons, List.filter_cons]
    split <;> simp [ih]

/-- removal (without renumbering) deletes exactly the chosen row groups from what is read and
    keeps every other row group in its place -/
theorem remove_exact (ds : DS) (idxs : List Nat) (ds' : DS) (h : removeRGs ds idxs false = .ok ds') :
    content ds' = ((content ds).zipIdx.filter (fun p => !idxs.contains p.2)).map (·.1) := by
  simp only [removeRGs, Bool.false_eq_true, if_false, bind, Except.bind, pure, Except.pure] at h
  injection h with h
  subst h
  simp only [content, List.map_map]
  exact zipIdx_filter_map (fun r => (r.dir, r.rows)) (fun i => !idxs.contains i) ds.refs 0

/-- fresh numbers: an append never reuses the path of a referenced file -/
theorem append_fresh (ds : DS) (nd : NewData) :
    ∀ r' ∈ newRefs (maxPart ds.refs) 0 nd, ∀ r ∈ ds.refs, (r'.dir, r'.id) ≠ (r.dir, r.id) := by
  intro r' hr' r hr heq
  have hlt := lt_maxPart ds.refs r hr
  have : ∀ (nd : NewData) (i : Nat), ∀ r' ∈ newRefs (maxPart ds.refs) i nd, maxPart ds.refs ≤ r'.id := by
    intro nd
    induction nd with
    | nil => intro i r' h; simp [newRefs] at h
    | cons pieces rest ih =>
      intro i r' h
      simp only [newRefs, List.mem_append, List.mem_map] at h
      rcases h with ⟨⟨d, rows⟩, _, rfl⟩ | h
      · simp
      · exact ih (i + 1) r' h
  have := this nd 0 r' hr'
  injection heq with h1 h2
  omega

-- non-vacuity / regression witness: the history that exposed the renumbering collision now agrees
example :
    let ds0 := addNew { files := [], refs := [] } [[("p=0", [1]), ("p=1", [0])], [("p=0", [2])]]
    (sortPartNames ds0).map agree = .ok true := by decide


/-- **metadata and directory agree after every history** (the property's invariant, by induction over
    the operations): starting from nothing, after any sequence of write / append / overwrite /
    remove_row_groups / write_row_groups(sort_key) / _sort_part_names — with or without renumbering —
    that the model executes without error, every row group of `_metadata` names a file holding exactly
    its rows, every file on disk is named by a row group, and no two row groups share a file.
    `HistOk`: the pieces of one incoming row group go to distinct directories (they come from a
    group-by), and where part files are renumbered the part numbers and row-group count stay below
    `tmpBase` = 10^6, the model's stand-in for the `.tmp` suffix. -/
theorem agree_after_every_history (ops : List Op) (ds' : DS) (hok : HistOk empty ops) (hr : run empty ops = .ok ds') :
    Inv ds' ∧ agree ds' = true :=
  let h := run_inv ops empty ds' inv_empty hok hr
  ⟨h, agree_of_inv h⟩

/-- **renumbering is total and changes nothing that is read**: under the invariant `_sort_part_names`
    cannot fail (no rename finds its source missing, no rename clobbers a live file), afterwards every
    part number equals the position of its row group, and the content per row group is what it was. -/
theorem sort_names_total_and_neutral (ds : DS) (h : Inv ds) (hb : Bounded ds) :
    ∃ ds', sortPartNames ds = .ok ds' ∧ Inv ds' ∧ content ds' = content ds ∧
      ∀ (i : Nat) (r : RgRef), ds'.refs[i]? = some r → r.id = i := by
  obtain ⟨ds', e, hi, hrefs⟩ := sortPartNames_inv ds h hb
  refine ⟨ds', e, hi, ?_, ?_⟩
  · simp only [content, hrefs, renumber]
    apply List.ext_getElem?
    intro i
    simp only [List.getElem?_map, List.getElem?_mapIdx]
    cases ds.refs[i]? <;> rfl
  · intro i r hr
    rw [hrefs] at hr
    simp only [renumber, List.getElem?_mapIdx] at hr
    cases h0 : ds.refs[i]? with
    | none => rw [h0] at hr; cases hr
    | some r0 =>
      rw [h0] at hr
      simp only [Option.map_some, Option.some.injEq] at hr
      rw [← hr]

/-- one step, stated for the operation the property names -/
theorem each_step_keeps_agreement (ds ds' : DS) (op : Op) (h : Inv ds) (hop : OpOk ds op) (hs : step ds op = .ok ds') :
    Inv ds' ∧ agree ds' = true :=
  let h' := step_inv ds ds' op h hop hs
  ⟨h', agree_of_inv h'⟩

-- non-vacuity: a history with two partitions, a removal, an overwrite and a collision-prone renumbering
-- meets `HistOk`, runs without error and ends in agreement
def witnessOps : List Op :=
  [.write [[("p=0", [1]), ("p=1", [0])], [("p=0", [2])]], .remove [0] false, .append [[("p=1", [7, 8])]],
   .overwrite [[("p=0", [9])]] true, .writeSorted [[("p=1", [3]), ("p=0", [4])]] true, .sortNames]
example : HistOk empty witnessOps := histOk_of_B _ _ (by decide +kernel)
example : (run empty witnessOps).map agree = .ok true := by decide +kernel
example : (run empty witnessOps).map (fun ds => ds.refs.length) = .ok 5 := by decide +kernel

end PqV.Props.C09
