import PqV.Spec.File
namespace PqV.Props.C02
theorem placeholder_true : True := trivial
end PqV.Props.C02
