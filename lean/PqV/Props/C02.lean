import PqV.Lemmas.Plain
import PqV.Lemmas.Footer
import PqV.Spec.File
import PqV.Lemmas.WritePage
import PqV.Lemmas.Tiles
/-!
# C02 — written files are valid Parquet that an independent reader decodes identically

The independent reader is `Spec.File` (run on the real bytes of every written file by harness/c02.py).
The theorems here establish, for ALL inputs, that this reader's building blocks accept and invert
every layout a conforming writer may choose for the parts fastparquet writes: level blocks, PLAIN
values of every physical type, dictionary pages with index streams, and the file frame.  So a file
that `Spec.File` decodes to a table is a file every conforming reader decodes to that table.
-/
namespace PqV.Props.C02
open PqV.Spec

/-- **definition / repetition level block (v1)**: 4-byte length + hybrid stream with any run mixture
    (fastparquet writes one bit-packed run; other writers mix) decodes to the levels, and the
    reader continues exactly behind it. -/
theorem level_block_decodes (maxLevel n : Nat) (hm : maxLevel ≠ 0) (rs : List Run) (tail : List Nat)
    (hwf : ∀ r ∈ rs, r.wf (widthFor maxLevel) = true) (hn : n ≤ (rs.flatMap Run.values).length)
    (hlen : (encodeRuns (widthFor maxLevel) rs).length < 2 ^ 32) :
    levelsV1 maxLevel n (leBytes 4 (encodeRuns (widthFor maxLevel) rs).length ++ encodeRuns (widthFor maxLevel) rs ++ tail)
      = some ((rs.flatMap Run.values).take n, tail) :=
  levelsV1_runs maxLevel n hm rs tail hwf hn hlen

/-- **PLAIN booleans**: bit-packed LSB first, padded to whole bytes, any count -/
theorem plain_booleans_decode (bits : List Nat) (hb : ∀ v ∈ bits, v < 2) :
    plainDecode PT_BOOLEAN 0 bits.length (packLE 1 bits) = some (bits.map Cell.int) := plain_bool_rt bits hb

/-- **PLAIN INT32 / INT64 / FLOAT / DOUBLE / INT96** (little-endian patterns of the type's width) -/
theorem plain_fixed_decode (ptype tl w : Nat) (hb : ptype ≠ PT_BOOLEAN) (hba : ptype ≠ PT_BYTE_ARRAY) (hf : ptype ≠ PT_FLBA)
    (hw : fixedWidth ptype tl = some w) (vals : List Nat) (hv : ∀ v ∈ vals, v < 256 ^ w) :
    plainDecode ptype tl vals.length (vals.flatMap (leBytes w)) = some (vals.map Cell.int) := by
  unfold plainDecode
  have hlen : ¬ ((vals.flatMap (leBytes w)).length < vals.length * w) := by
    have : (vals.flatMap (leBytes w)).length = vals.length * w := by
      induction vals with
      | nil => simp
      | cons v vs ih =>
        have := ih (fun x hx => hv x (List.mem_cons_of_mem _ hx))
        simp only [List.flatMap_cons, List.length_append, leBytes_length, List.length_cons, this]
        rw [Nat.add_mul]; omega
    omega
  simp only [hb, if_false, hba, hw, hlen, hf, decide_false]
  have := plainFixed_rt w vals hv [] []
  simp only [List.append_nil, List.reverse_nil, List.nil_append] at this
  rw [this]

/-- **PLAIN BYTE_ARRAY**: 4-byte length + bytes, any lengths (incl. empty), any count -/
theorem plain_byte_arrays_decode (items : List (List Nat)) (hl : ∀ it ∈ items, it.length < 2 ^ 32) :
    plainDecode PT_BYTE_ARRAY 0 items.length (items.flatMap fun it => leBytes 4 it.length ++ it) = some (items.map Cell.bytes) := by
  unfold plainDecode
  have := plainByteArrays_rt items hl [] []
  simp only [List.append_nil, List.reverse_nil, List.nil_append] at this
  simp [PT_BYTE_ARRAY, PT_BOOLEAN, this]

/-- **dictionary-encoded data page**: width byte + any run mixture of in-range indices → the
    dictionary entries, in order -/
theorem dictionary_values_decode (ptype tl enc w n : Nat) (he : enc = ENC_PLAIN_DICTIONARY ∨ enc = ENC_RLE_DICTIONARY)
    (dict : List Cell) (rs : List Run) (tail : List Nat) (hwf : ∀ r ∈ rs, r.wf w = true)
    (hn : n ≤ (rs.flatMap Run.values).length) (hin : ∀ i ∈ (rs.flatMap Run.values).take n, i < dict.length) :
    decodeValues ptype tl enc (some dict) n (w :: (encodeRuns w rs ++ tail))
      = some (((rs.flatMap Run.values).take n).map fun i => dict.getD i Cell.null) := by
  unfold decodeValues
  have h0 : ¬ (enc = ENC_PLAIN) := by rcases he with h | h <;> simp [h, ENC_PLAIN, ENC_PLAIN_DICTIONARY, ENC_RLE_DICTIONARY]
  simp only [h0, if_false, he, if_true, dictIndices_runs w n rs tail hwf hn]
  exact dict_lookup dict _ hin

/-- **null scatter** puts the decoded values at the rows whose level is the maximum, nulls elsewhere -/
theorem nulls_and_values (m : Nat) (defs : List Nat) (vals : List Cell)
    (h : vals.length = countMax m defs) (hnn : ∀ v ∈ vals, v ≠ Cell.null) :
    (scatter m defs vals).length = defs.length ∧
    (scatter m defs vals).filter (fun c => decide (c ≠ Cell.null)) = vals :=
  ⟨scatter_length m defs vals, scatter_filter m defs vals h hnn⟩

/-- **what the validator accepts as the pages of a chunk does tile it**: if `chunkPages` (the page walk `Spec.File` runs on
    the real bytes of every column chunk) returns a page list for the byte range `[start, stop)`, then the first page header
    starts at `start`, every next header starts exactly where the previous page's payload ends (header offset + header
    length + `compressed_page_size`), the last payload ends at `stop` — no gap, no overlap, no overrun — and every entry is
    what `parsePage` reads at its offset.  So a file whose pages do not tile a chunk, or whose recorded
    `total_compressed_size` / offsets do not describe the bytes present, cannot be accepted. -/
theorem accepted_pages_tile_the_chunk (file : Array Nat) (fuel start stop : Nat) (ps : List PageInfo)
    (h : chunkPages file fuel start stop [] = .ok ps) :
    Tiles start stop ps ∧ ∀ p ∈ ps, parsePage file p.hdrOff = .ok p := by
  obtain ⟨tail, hps, ht, hall⟩ := chunkPages_acc file fuel start stop [] ps h
  simp only [List.reverse_nil, List.nil_append] at hps
  subst hps
  exact ⟨ht, hall⟩

/-- **…and the value counts it reports add up**: when the page loop `decodePages` accepts the pages of a chunk, the row count
    it reports is the sum of `num_values` over the data pages (a dictionary page contributes none) — which `decodeChunk`
    then requires to equal `ColumnMetaData.num_values` and the row group's `num_rows`.  Proved over every branch of
    `decodePage` (dictionary, v1, v2). -/
theorem accepted_pages_count_rows (leaf : Leaf) (pages : List (PageInfo × List Nat)) (acc : PageAcc)
    (h : decodePages leaf {} pages = .ok acc) :
    acc.count = ((pages.filter (fun x => x.1.ptypeTag != 2)).map (fun x => x.1.numValues)).sum := by
  have := decodePages_count leaf pages {} acc h
  simpa using this

/-- **…with one definition level per value**: for the accepted pages of a chunk the validator has decoded exactly as many
    definition levels as `num_values` announces, page by page (v1: the length-prefixed block must yield `num_values` levels;
    v2: the level bytes must) — so for a flat column "cells = levels" and the null count it derives (levels below the maximum)
    is a count over exactly the chunk's rows. -/
theorem accepted_pages_one_level_per_value (leaf : Leaf) (pages : List (PageInfo × List Nat)) (acc : PageAcc)
    (h : decodePages leaf {} pages = .ok acc) :
    acc.defs.length = acc.count := by
  have h1 := decodePages_defs leaf pages {} acc h
  have h2 := decodePages_count leaf pages {} acc h
  simp only [List.length_nil, Nat.zero_add] at h1
  have h3 : ({} : PageAcc).count = 0 := rfl
  rw [h3, Nat.zero_add] at h2
  rw [h1, h2]

/-! ### non-vacuity -/
example : levelsV1 1 5 (leBytes 4 2 ++ encodeRuns 1 [Run.bp [1, 0, 1, 1, 0, 0, 0, 0]] ++ [9])
    = some ([1, 0, 1, 1, 0], [9]) := by decide +kernel
example : fixedWidth PT_INT64 0 = some 8 := by decide
example : plainDecode PT_INT64 0 2 ([7, 300].flatMap (leBytes 8)) = some [Cell.int 7, Cell.int 300] := by decide +kernel

/-- **the framing check used on every written file raises no false alarm**: a level or
    dictionary-index stream made of well-formed runs (any mixture, any width, last group padded to 8)
    holding at least the `n` values the page header announces is accepted by `hybridTight`, whatever
    bytes follow it in the page (fastparquet appends 8 zero bytes to v1 pages).  A stream it rejects
    therefore has a run whose announced payload is not all inside the page. -/
theorem framing_check_accepts_conforming (w n : Nat) (rs : List Run) (tail : List Nat)
    (hwf : ∀ r ∈ rs, r.wf w = true) (hn : n ≤ (rs.flatMap Run.values).length) :
    hybridTight w n (encodeRuns w rs ++ tail) = true :=
  hybridTight_encodeRuns w n rs tail hwf hn

/-- the check is not vacuous: a group of eight 8-bit indices announced, seven stored -/
example : hybridTight 8 7 [3, 0, 1, 2, 0, 1, 2, 0] = false := by decide

section writtenChunk
open PqV.Impl

/-- **every column chunk the writer lays down is valid and is decoded by the independent reader to the cells that
    went in.**  `writerChunk` is the model of `writer.write_column` for a flat column (tied to the real writer byte for
    byte by the `wpage.chunk` correspondence on every file the harness writes): optional dictionary page, then one data
    page per slice of rows — definition-level block of `make_definitions` (one RLE run when the page has no null, one
    bit-packed run of the not-null bits otherwise; 4-byte length prefix in v1), the values of `encode_plain` or the
    index run of `encode_dict`, 8 zero bytes after a v1 page — with the header numbers `write_column` records.
    `decodePages` is the page loop of `Spec.File` (the very function run on the real bytes).  For ANY column spec
    (physical type, REQUIRED / OPTIONAL, page v1 / v2, PLAIN / dictionary with 1-, 2- or 4-byte codes), ANY number of
    pages of ANY sizes (also empty pages and pages of nulls only) and ANY cells the type can hold: the reader accepts
    every page (sizes, num_nulls, num_rows, level byte length all agree with the bytes), counts exactly the rows
    written, finds every run tightly framed (`loose = 0`), and null scatter returns exactly the cells — for a
    categorical column the category each code names. -/
theorem written_chunk_decodes (c : ColSpec) (hpt : c.ptype ≤ 7) (cats : List Cell) (pages : List (List Cell))
    (hcats : c.dictItem.isSome → ∀ x ∈ cats, plainOk c.ptype c.typeLength x = true)
    (hok : ∀ p ∈ pages, PageOk c cats.length p) :
    ∃ acc, decodePages (leafOf c) {} (writerChunk c cats pages) = .ok acc ∧
      scatter (leafOf c).maxDef acc.defs acc.vals = pages.flatten.map (render c cats) ∧
      acc.count = pages.flatten.length ∧ acc.loose = 0 ∧ acc.reps = List.replicate pages.flatten.length 0 :=
  written_chunk c hpt cats pages hcats hok

/-- **the writer's layout arithmetic as the code has it now** (REGENERATED from `encode_dict` and `write_column` on every run,
    translated expression by expression to functions over `Int`): the width byte is 8·itemsize, the run header announces
    ⌈n/8⌉ groups, the zero padding completes the last group counted in BYTES (`(groups·8 − n)·itemsize`), and a v1 page ends
    with 8 zero bytes.  `Impl.writerDictData` / `writerPageBody` are built from these regenerated functions, and
    `written_chunk_decodes` is proved through this theorem — so an edit to that arithmetic that changes any value breaks the
    proof obligation of C02 and C01 (not only the byte correspondence). -/
theorem write_layout_now (n item : Nat) :
    PqV.Gen.WriteLayout.recognised = true ∧
    (PqV.Gen.WriteLayout.dictWidthByte item).toNat = item * 8 ∧
    (PqV.Gen.WriteLayout.dictHeader n item).toNat = (n + 7) / 8 * 2 + 1 ∧
    (PqV.Gen.WriteLayout.dictPad n item).toNat = ((n + 7) / 8 * 8 - n) * item ∧
    PqV.Gen.WriteLayout.v1Trailer = 8 :=
  Impl.write_layout_now n item

/-- … and the two level-block layouts of `make_definitions` (REGENERATED likewise): one RLE run `varint(n << 1)` + value byte 1
    for a page without nulls, one bit-packed run `varint(len(out) << 1 | 1)` otherwise, a 4-byte little-endian length prefix
    exactly in v1 pages.  `Impl.writerDefBody` / `writerDefBlock` are built from these functions. -/
theorem def_layout_now (n : Nat) :
    (PqV.Gen.WriteLayout.defRleHeader n).toNat = n * 2 ∧ PqV.Gen.WriteLayout.defRleValue.toNat = 1 ∧
    (PqV.Gen.WriteLayout.defBpHeader n).toNat = n * 2 + 1 ∧ PqV.Gen.WriteLayout.defPrefixBytes = 4 :=
  Impl.def_layout_now n

/-- **the chunk metadata describes the pages present**: the `encodings` list and the `encoding_stats` the writer model
    records (compared with what the real writer records by the `wpage.chunk` correspondence) pass the validator's
    check `encodingsProblem` for every column spec and any number of pages — every page's encoding is listed, every
    (page type, encoding) kind present is counted, with the exact number of pages, data pages of a v2 chunk under
    DATA_PAGE_V2. -/
theorem written_chunk_metadata_describes_pages (c : ColSpec) (cats : List Cell) (pages : List (List Cell)) :
    encodingsProblem (writerEncodings c) (some (writerEncStats c pages.length))
      ((writerChunk c cats pages).map (fun x => (x.1.ptypeTag, x.1.encoding))) = none :=
  written_chunk_meta c cats pages

/-- the check is not vacuous: v2 pages counted as DATA_PAGE (what the writer recorded before repair) are refused -/
example : (encodingsProblem [0] (some [(0, 0, 2)]) [(3, 0), (3, 0)]).isSome = true := by decide

/-- for a column that is not dictionary-encoded the reader's cells are literally the writer's cells -/
theorem written_plain_chunk_identity (c : ColSpec) (hd : c.dictItem = none) (cats : List Cell) (cells : List Cell) :
    cells.map (render c cats) = cells := by
  conv => rhs; rw [← List.map_id cells]
  apply List.map_congr_left
  intro x _
  simp [render, hd]

/-! non-vacuity: an OPTIONAL INT64 column with a null, two v1 pages; a categorical with 2-byte codes under v2 -/
example : PageOk { ptype := PT_INT64, hasNulls := true, v2 := false } 0 [Cell.int 5, Cell.null, Cell.int (2 ^ 64 - 1)] :=
  ⟨by decide, by decide, by decide +kernel⟩
example : PageOk { ptype := PT_BYTE_ARRAY, hasNulls := true, v2 := true, dictItem := some 2 } 300 [Cell.int 299, Cell.null] :=
  ⟨by decide, by decide, by decide +kernel⟩
example : (decodePages (leafOf { ptype := PT_INT64, hasNulls := true, v2 := false }) {}
    (writerChunk { ptype := PT_INT64, hasNulls := true, v2 := false } [] [[Cell.int 5, Cell.null], [Cell.int 7]])).toOption.map
      (fun a => scatter 1 a.defs a.vals) = some [Cell.int 5, Cell.null, Cell.int 7] := by decide +kernel

end writtenChunk

end PqV.Props.C02
