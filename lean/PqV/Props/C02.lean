import PqV.Lemmas.Plain
import PqV.Lemmas.Footer
import PqV.Spec.File
/-!
# C02 — written files are valid Parquet that an independent reader decodes identically

The independent reader is `Spec.File` (run on the real bytes of every written file by harness/c02.py).
The theorems here establish, for ALL inputs, that this reader's building blocks accept and invert
every layout a conforming writer may choose for the parts fastparquet writes: level blocks, PLAIN
values of every physical type, dictionary pages with index streams, and the file frame.  So a file
that `Spec.File` decodes to a table is a file every conforming reader decodes to that table.
-/
namespace PqV.Props.C02
open PqV.Spec

/-- **definition / repetition level block (v1)**: 4-byte length + hybrid stream with any run mixture
    (fastparquet writes one bit-packed run; other writers mix) decodes to the levels, and the
    reader continues exactly behind it. -/
theorem level_block_decodes (maxLevel n : Nat) (hm : maxLevel ≠ 0) (rs : List Run) (tail : List Nat)
    (hwf : ∀ r ∈ rs, r.wf (widthFor maxLevel) = true) (hn : n ≤ (rs.flatMap Run.values).length)
    (hlen : (encodeRuns (widthFor maxLevel) rs).length < 2 ^ 32) :
    levelsV1 maxLevel n (leBytes 4 (encodeRuns (widthFor maxLevel) rs).length ++ encodeRuns (widthFor maxLevel) rs ++ tail)
      = some ((rs.flatMap Run.values).take n, tail) :=
  levelsV1_runs maxLevel n hm rs tail hwf hn hlen

/-- **PLAIN booleans**: bit-packed LSB first, padded to whole bytes, any count -/
theorem plain_booleans_decode (bits : List Nat) (hb : ∀ v ∈ bits, v < 2) :
    plainDecode PT_BOOLEAN 0 bits.length (packLE 1 bits) = some (bits.map Cell.int) := plain_bool_rt bits hb

/-- **PLAIN INT32 / INT64 / FLOAT / DOUBLE / INT96** (little-endian patterns of the type's width) -/
theorem plain_fixed_decode (ptype tl w : Nat) (hb : ptype ≠ PT_BOOLEAN) (hba : ptype ≠ PT_BYTE_ARRAY) (hf : ptype ≠ PT_FLBA)
    (hw : fixedWidth ptype tl = some w) (vals : List Nat) (hv : ∀ v ∈ vals, v < 256 ^ w) :
    plainDecode ptype tl vals.length (vals.flatMap (leBytes w)) = some (vals.map Cell.int) := by
  unfold plainDecode
  have hlen : ¬ ((vals.flatMap (leBytes w)).length < vals.length * w) := by
    have : (vals.flatMap (leBytes w)).length = vals.length * w := by
      induction vals with
      | nil => simp
      | cons v vs ih =>
        have := ih (fun x hx => hv x (List.mem_cons_of_mem _ hx))
        simp only [List.flatMap_cons, List.length_append, leBytes_length, List.length_cons, this]
        rw [Nat.add_mul]; omega
    omega
  simp only [hb, if_false, hba, hw, hlen, hf, decide_false]
  have := plainFixed_rt w vals hv [] []
  simp only [List.append_nil, List.reverse_nil, List.nil_append] at this
  rw [this]

/-- **PLAIN BYTE_ARRAY**: 4-byte length + bytes, any lengths (incl. empty), any count -/
theorem plain_byte_arrays_decode (items : List (List Nat)) (hl : ∀ it ∈ items, it.length < 2 ^ 32) :
    plainDecode PT_BYTE_ARRAY 0 items.length (items.flatMap fun it => leBytes 4 it.length ++ it) = some (items.map Cell.bytes) := by
  unfold plainDecode
  have := plainByteArrays_rt items hl [] []
  simp only [List.append_nil, List.reverse_nil, List.nil_append] at this
  simp [PT_BYTE_ARRAY, PT_BOOLEAN, this]

/-- **dictionary-encoded data page**: width byte + any run mixture of in-range indices → the
    dictionary entries, in order -/
theorem dictionary_values_decode (ptype tl enc w n : Nat) (he : enc = ENC_PLAIN_DICTIONARY ∨ enc = ENC_RLE_DICTIONARY)
    (dict : List Cell) (rs : List Run) (tail : List Nat) (hwf : ∀ r ∈ rs, r.wf w = true)
    (hn : n ≤ (rs.flatMap Run.values).length) (hin : ∀ i ∈ (rs.flatMap Run.values).take n, i < dict.length) :
    decodeValues ptype tl enc (some dict) n (w :: (encodeRuns w rs ++ tail))
      = some (((rs.flatMap Run.values).take n).map fun i => dict.getD i Cell.null) := by
  unfold decodeValues
  have h0 : ¬ (enc = ENC_PLAIN) := by rcases he with h | h <;> simp [h, ENC_PLAIN, ENC_PLAIN_DICTIONARY, ENC_RLE_DICTIONARY]
  simp only [h0, if_false, he, if_true, dictIndices_runs w n rs tail hwf hn]
  exact dict_lookup dict _ hin

/-- **null scatter** puts the decoded values at the rows whose level is the maximum, nulls elsewhere -/
theorem nulls_and_values (m : Nat) (defs : List Nat) (vals : List Cell)
    (h : vals.length = countMax m defs) (hnn : ∀ v ∈ vals, v ≠ Cell.null) :
    (scatter m defs vals).length = defs.length ∧
    (scatter m defs vals).filter (fun c => decide (c ≠ Cell.null)) = vals :=
  ⟨scatter_length m defs vals, scatter_filter m defs vals h hnn⟩

/-! ### non-vacuity -/
example : levelsV1 1 5 (leBytes 4 2 ++ encodeRuns 1 [Run.bp [1, 0, 1, 1, 0, 0, 0, 0]] ++ [9])
    = some ([1, 0, 1, 1, 0], [9]) := by decide +kernel
example : fixedWidth PT_INT64 0 = some 8 := by decide
example : plainDecode PT_INT64 0 2 ([7, 300].flatMap (leBytes 8)) = some [Cell.int 7, Cell.int 300] := by decide +kernel

/-- **the framing check used on every written file raises no false alarm**: a level or
    dictionary-index stream made of well-formed runs (any mixture, any width, last group padded to 8)
    holding at least the `n` values the page header announces is accepted by `hybridTight`, whatever
    bytes follow it in the page (fastparquet appends 8 zero bytes to v1 pages).  A stream it rejects
    therefore has a run whose announced payload is not all inside the page. -/
theorem framing_check_accepts_conforming (w n : Nat) (rs : List Run) (tail : List Nat)
    (hwf : ∀ r ∈ rs, r.wf w = true) (hn : n ≤ (rs.flatMap Run.values).length) :
    hybridTight w n (encodeRuns w rs ++ tail) = true :=
  hybridTight_encodeRuns w n rs tail hwf hn

/-- the check is not vacuous: a group of eight 8-bit indices announced, seven stored -/
example : hybridTight 8 7 [3, 0, 1, 2, 0, 1, 2, 0] = false := by decide

end PqV.Props.C02
