import PqV.Lemmas.Dataset
import PqV.Lemmas.Footer
import PqV.Impl.Append
import PqV.Gen.AppendIO
import PqV.Lemmas.Rejected
/-!
# C18 — rejected operations raise and leave an existing dataset exactly as it was
-/
namespace PqV.Props.C18
open PqV.Impl.Dataset PqV.Impl.Footer PqV.Spec

/-- A failure at ANY position of a multi-file append (any column of any row group: the failing
    part file is torn, later ones are never started) happens before the summary is rewritten, so a
    fresh open reads exactly the previous content: instance of the crash theorem at every prefix of
    the data phase. -/
theorem multi_fail_intact (partitioned : Bool) (fs : FS) (old : List RgRef) (nd : NewData)
    (hmeta : fs.get .pmeta = some (.refs old)) (k : Nat)
    (hk : k ≤ (dataOps partitioned (maxPart old) 0 nd).length) :
    readDS (runOps fs ((appendOps partitioned old nd).take k)) = readDS fs := by
  have htake : (appendOps partitioned old nd).take k = (dataOps partitioned (maxPart old) 0 nd).take k := by
    unfold appendOps; exact List.take_append_of_le_length hk
  rw [htake]
  have hsub : ∀ op ∈ (dataOps partitioned (maxPart old) 0 nd).take k, op ∈ dataOps partitioned (maxPart old) 0 nd :=
    fun op h => List.mem_of_mem_take h
  have hm : (runOps fs ((dataOps partitioned (maxPart old) 0 nd).take k)).get .pmeta = fs.get .pmeta := by
    apply runOps_get
    intro op hop heq
    obtain ⟨d, id, hp, _⟩ := dataOps_targets partitioned (maxPart old) nd 0 op (hsub op hop) _ heq
    cases hp
  unfold readDS
  rw [hm, hmeta]
  apply readRefs_congr
  intro r hr
  apply runOps_get
  intro op hop heq
  obtain ⟨d, id, hp, hge⟩ := dataOps_targets partitioned (maxPart old) nd 0 op (hsub op hop) _ heq
  have := lt_maxPart old r hr
  injection hp with h1 h2
  omega

/-- A rejection detected by up-front validation issues no filesystem operation at all: running the
    empty trace is the identity. -/
theorem upfront_no_effect (fs : FS) : runOps fs [] = fs := rfl

/-- Single-file append that fails after some bytes were written over the old footer:
    WITHOUT a roll-back the trailer is gone — the file no longer ends in the framing of any footer
    (witness: two bytes of a new row group written over a 3-byte footer). -/
theorem simple_fail_fails :
    ∃ (f partialBytes : List Nat),
      let g := overlay f (footerLoc false f) partialBytes
      g ≠ f ∧ g.length < leNat ((g.drop (g.length - 8)).take 4) + 8 ∨ g.drop (g.length - 4) ≠ magic := by
  refine ⟨[9, 9, 1, 2, 3, 3, 0, 0, 0, 0x50, 0x41, 0x52, 0x31], List.replicate 11 7, ?_⟩
  decide

/-- With a roll-back (rewrite the saved old tail at the old footer position and truncate) the
    file is restored byte for byte whatever was written in between. -/
theorem simple_fail_rollback (f partialBytes : List Nat) (h : footerLoc false f ≤ f.length) :
    let loc := footerLoc false f
    (overlay f loc partialBytes).take loc ++ f.drop loc = f := by
  simp only
  rw [overlay_take f _ _ h, List.take_append_drop]

/-- The code as it stands restores the saved footer in its exception handler and re-raises
    (regenerated from `write_simple.write_to_file`): the roll-back theorem applies to it. -/
theorem rolls_back_now : PqV.Gen.AppendIO.rollsBack = true := by decide

/-- **history level: failed appends are invisible to everything that follows.**  Take ANY sequence of attempted
    multi-file appends, each planned (part numbers by `find_max_part`) from the `_metadata` it finds on disk, each either
    completing or failing after any number `k` of its data-phase operations (a torn or complete part file left behind,
    no summary written).  A fresh open at the end reads exactly what it reads after the sequence of the COMPLETED appends
    alone: a failed attempt only creates or tears files whose part numbers no row group carries, and the next attempt,
    planned from the unchanged `_metadata`, re-creates ('wb') every file it is going to reference.  By an invariant
    (`Agree`: same `_metadata`, same content in every referenced file) carried through the induction over the
    history; the operation lists are those of `Impl.Dataset.appendOps`, tied to the real `open_with` / `mkdirs` call
    sequence by the C19 trace correspondence. -/
theorem rejected_attempts_invisible (partitioned : Bool) (fs : FS) (as : List Attempt) :
    readDS (as.foldl (attempt partitioned) fs) = readDS ((as.filter (·.fail.isNone)).foldl (attempt partitioned) fs) :=
  readDS_agree _ _ (attempts_agree partitioned as fs fs (Agree.refl fs))

/-- non-vacuity: a dataset of one row group; an append that dies after tearing `part.1`; then a completed append of other rows
    (which re-creates `part.1`): the failed attempt's rows 7, 8 are nowhere, the dataset reads 1, 2, 3, 4 -/
example :
    let fs : FS := [(.pmeta, .refs [{ dir := "", id := 0, rows := [1, 2] }]), (.part "" 0, .data [1, 2])]
    readDS ([{ nd := [[("", [7, 8])]], fail := some 1 }, { nd := [[("", [3, 4])]], fail := none }].foldl (attempt false) fs)
      = some [1, 2, 3, 4] := by decide

end PqV.Props.C18
