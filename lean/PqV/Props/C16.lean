import PqV.Lemmas.Footer
import PqV.Lemmas.FooterSeq
import PqV.Gen.FooterIO
import PqV.Gen.KvMerge
/-!
# C16 — user key-value metadata verbatim; in-place updates touch nothing else

Byte-level model of `update_file_custom_metadata` (`Impl.Footer.rewrite`).  Whether the code
truncates the file after writing the new trailer is REGENERATED from the source
(`Gen.FooterIO.ioOps`, the ordered file-method calls of the function body).
-/
namespace PqV.Props.C16
open PqV.Spec PqV.Impl.Footer

/-- The code as it stands today performs exactly this sequence of file operations
    (regenerated; a reordering, a dropped `truncate`, an extra write all break this). -/
theorem io_sequence :
    PqV.Gen.FooterIO.ioOps = ["seek", "read", "seek", "read", "seek", "write", "write", "write", "truncate"] := by
  decide

/-- hence the model parameter `truncate` is `true` for the current source -/
theorem truncates_now : PqV.Gen.FooterIO.truncates = true := by decide

/-- Every byte before the footer (all data pages; the leading magic) is untouched,
    for any new footer, any size change, with or without truncation. -/
theorem data_prefix_same (tr isMeta : Bool) (f nf : List Nat) (h : footerLoc isMeta f ≤ f.length) :
    (rewrite tr isMeta f nf).take (footerLoc isMeta f) = f.take (footerLoc isMeta f) := by
  unfold rewrite
  cases tr
  · simp only [Bool.false_eq_true, if_false]; exact overlay_take _ _ _ h
  · simp only [if_true]
    rw [List.take_append_of_le_length (by simp [h])]; simp [List.take_take]

/-- With truncation the result is strictly framed whatever the change in footer size
    (grow, equal, shrink by 1..7, shrink by ≥ 8). -/
theorem still_valid (isMeta : Bool) (f nf : List Nat) (h : footerLoc isMeta f ≤ f.length) :
    framedStrict (rewrite true isMeta f nf) (footerLoc isMeta f) nf := by
  unfold framedStrict rewrite
  simp only [if_true]
  have : (f.take (footerLoc isMeta f) ++ (nf ++ leBytes 4 nf.length ++ magic)).take (footerLoc isMeta f)
      = f.take (footerLoc isMeta f) := by
    rw [List.take_append_of_le_length (by simp [h])]; simp [List.take_take]
  rw [this]; simp [List.append_assoc]

/-- …and for any *sequence* of updates: the invariant "strictly framed at the same `loc`" is
    preserved, because a strictly framed data file recomputes the same `loc`. -/
theorem loc_stable (f nf : List Nat) (loc : Nat) (hl : loc ≤ f.length) (hnf : nf.length < 2 ^ 32)
    (hf : framedStrict f loc nf) : footerLoc false f = loc := by
  unfold framedStrict at hf
  unfold footerLoc
  simp only [Bool.false_eq_true, if_false]
  have hlen : f.length = loc + nf.length + 8 := by
    have := congrArg List.length hf
    simp [List.length_append, leBytes_length, magic_length, List.length_take, Nat.min_eq_left hl] at this
    omega
  have hdrop : (f.drop (f.length - 8)).take 4 = leBytes 4 nf.length := by
    rw [hf]
    have e : (List.take loc f ++ nf ++ leBytes 4 nf.length ++ magic).length - 8 = (List.take loc f ++ nf).length := by
      simp [List.length_append, leBytes_length, magic_length]; omega
    rw [e, List.append_assoc (List.take loc f ++ nf), List.drop_left]
    rw [List.take_append_of_le_length (by simp [leBytes_length])]
    rw [List.take_of_length_le (by simp [leBytes_length])]
  rw [hdrop, leNat_leBytes]
  have : nf.length % 256 ^ 4 = nf.length := Nat.mod_eq_of_lt (by simpa using hnf)
  rw [this]; omega

/-- Without truncation (the code before the repair) the file is still strictly framed when the
    footer does not shrink … -/
theorem grow_valid_without_truncate (isMeta : Bool) (f nf : List Nat)
    (h : footerLoc isMeta f ≤ f.length) (hg : f.length ≤ footerLoc isMeta f + nf.length + 8) :
    framedStrict (rewrite false isMeta f nf) (footerLoc isMeta f) nf := by
  have e : rewrite false isMeta f nf = rewrite true isMeta f nf := by
    unfold rewrite
    simp only [Bool.false_eq_true, if_false, if_true]
    apply overlay_covers
    simp [List.length_append, leBytes_length, magic_length]; omega
  rw [e]; exact still_valid isMeta f nf h

/-- … but NOT when it shrinks by 1..7 bytes: the last eight bytes are then a mixture of the new
    and the old trailer (the defect repaired by the `fix:` commit).  Witness: a 3-byte footer
    replaced by an empty one; the trailer of the result records a footer length larger than the
    whole file, so no reader can open it. -/
theorem shrink_fails_without_truncate :
    ∃ (f nf : List Nat), footerLoc false f ≤ f.length ∧
      (let g := rewrite false false f nf
       g.length < leNat ((g.drop (g.length - 8)).take 4) + 8) := by
  exact ⟨[9, 9, 1, 2, 3, 3, 0, 0, 0, 0x50, 0x41, 0x52, 0x31], [], by decide, by decide⟩

/-! ### key merge rules -/

/-- One update of one key on a footer whose keys are distinct does exactly what the plain map
    specification says: add, replace, or (for `None`) remove that key and leave every other key's
    value unchanged. -/
theorem kv_merge_one (kvm : KV) (u : List Nat × Option (List Nat)) (hnd : (kvm.map (·.1)).Nodup) (k : List Nat) :
    lookup (merge kvm [u]) k = specStep (lookup kvm) u k := by
  exact merge_one_lookup kvm u hnd k

/-- **a whole update dict** (any number of distinct keys; adds, replacements and removals mixed):
    applying it key by key — with the code's spare key list that is *not* extended when a key is
    added — shows, for every key, exactly what the plain finite-map specification shows. -/
theorem kv_merge_any_update (kvm : KV) (upd : List (List Nat × Option (List Nat))) (hnd : (kvm.map (·.1)).Nodup)
    (hupd : (upd.map (·.1)).Nodup) (k : List Nat) :
    lookup (merge kvm upd) k = (upd.foldl specStep (lookup kvm)) k :=
  merge_lookup kvm upd hnd hupd k

example : lookup (merge [([1], [10]), ([2], [20])] [([2], none), ([3], some [30]), ([1], some [11])]) [1] = some [11] := by decide


/-- **any sequence of in-place updates of a data file**: start from a strictly framed file; after
    every rewrite in the sequence (footers of any sizes below 2^32 — growing, equal, shrinking by any
    number of bytes) the file is again strictly framed at the SAME offset with the latest footer, and
    every byte before the footer is what it was at the start. -/
theorem any_update_sequence (nfs : List (List Nat)) (hall : ∀ nf ∈ nfs, nf.length < 2 ^ 32) :
    ∀ (f nf0 : List Nat) (loc : Nat), loc ≤ f.length → nf0.length < 2 ^ 32 → framedStrict f loc nf0 →
      let g := nfs.foldl (rewrite true false) f
      framedStrict g loc (nfs.getLast?.getD nf0) ∧ g.take loc = f.take loc ∧ loc ≤ g.length := by
  induction nfs with
  | nil => intro f nf0 loc hl _ hf; exact ⟨hf, rfl, hl⟩
  | cons nf rest ih =>
    intro f nf0 loc hl hn0 hf
    have hloc : footerLoc false f = loc := loc_stable f nf0 loc hl hn0 hf
    have hl' : footerLoc false f ≤ f.length := by rw [hloc]; exact hl
    have h1 := still_valid false f nf hl'
    have h2 := data_prefix_same true false f nf hl'
    rw [hloc] at h1 h2
    have hlen : loc ≤ (rewrite true false f nf).length := by
      have := congrArg List.length h2
      simp only [List.length_take] at this
      omega
    have hnf : nf.length < 2 ^ 32 := hall nf List.mem_cons_self
    obtain ⟨a, b, c⟩ := ih (fun x hx => hall x (List.mem_cons_of_mem _ hx)) (rewrite true false f nf) nf loc hlen hnf h1
    simp only [List.foldl_cons]
    refine ⟨?_, by rw [b, h2], c⟩
    cases rest with
    | nil => simpa using a
    | cons r rs =>
      have e : ∀ d : List Nat, ((r :: rs).getLast?).getD d = (r :: rs).getLast (by simp) := by
        intro d; rw [List.getLast?_eq_some_getLast (by simp)]; rfl
      rw [List.getLast?_cons_cons, e nf0]
      rw [e nf] at a
      exact a

example : framedStrict ([1, 2, 3] ++ [9, 9] ++ leBytes 4 2 ++ magic) 3 [9, 9] := by
  unfold framedStrict; decide

/-- the merge loop of `util.update_custom_metadata` as the source has it now (REGENERATED, branch by
    branch): a key found with value `None` is deleted from BOTH parallel lists at its index, a key found
    with a value is replaced by the encoded value, a new key is appended exactly when its value is not
    `None` (an empty value is a value) — the rules `Impl.Footer.mergeStep` models and
    `kv_merge_any_update` is about -/
theorem kv_rules_now :
    PqV.Gen.KvMerge.foundCond = "key_binkvm_keys" ∧ PqV.Gen.KvMerge.removeCond = "valueisNone" ∧
    PqV.Gen.KvMerge.removeStmts = ["delkvm[idx]", "delkvm_keys[idx]"] ∧
    PqV.Gen.KvMerge.replaceStmts = ["kvm[idx]=parquet_thrift.KeyValue(key=key_b,value=ensure_bytes(value))"] ∧
    PqV.Gen.KvMerge.addCond = "valueisnotNone" ∧
    PqV.Gen.KvMerge.addStmts = ["kvm.append(parquet_thrift.KeyValue(key=key_b,value=ensure_bytes(value)))"] := by decide

end PqV.Props.C16
