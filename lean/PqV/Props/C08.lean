import PqV.Impl.Partition
import Mathlib.Tactic.Linarith
/-!
# C08 — directory-partitioned write/read preserves every row and every partition value
-/
namespace PqV.Props.C08
open PqV.Impl.Partition

theorem mem_insertKey (k x : Nat) (l : List Nat) : x ∈ insertKey k l ↔ x = k ∨ x ∈ l := by
  induction l with
  | nil => simp [insertKey]
  | cons y ys ih =>
    simp only [insertKey]
    split
    · simp
    · split
      · rename_i h1 h2; subst h2; simp
      · simp only [List.mem_cons, ih]; constructor <;> (intro h; rcases h with h | h | h <;> simp [h])

theorem mem_keysOf (rows : List Row) (k : Nat) : k ∈ keysOf rows ↔ ∃ r ∈ rows, r.2 = some k := by
  induction rows with
  | nil => simp [keysOf]
  | cons r rs ih =>
    have hk : keysOf (r :: rs) = (match r.2 with | some k => insertKey k (keysOf rs) | none => keysOf rs) := rfl
    rw [hk]
    cases hr : r.2 with
    | none => simp [ih, hr]
    | some k' =>
      simp only [mem_insertKey, ih, List.mem_cons, exists_eq_or_imp, hr, Option.some.injEq]
      constructor
      · rintro (h | h)
        · left; exact h.symm
        · right; exact h
      · rintro (h | h)
        · left; exact h.symm
        · right; exact h

theorem sorted_insertKey (k : Nat) (l : List Nat) (h : l.Pairwise (· < ·)) : (insertKey k l).Pairwise (· < ·) := by
  induction l with
  | nil => simp [insertKey]
  | cons y ys ih =>
    simp only [insertKey]
    rw [List.pairwise_cons] at h
    split
    · rename_i hlt
      refine List.pairwise_cons.mpr ⟨?_, List.pairwise_cons.mpr h⟩
      intro z hz
      rcases List.mem_cons.mp hz with rfl | hz
      · exact hlt
      · exact Nat.lt_trans hlt (h.1 z hz)
    · split
      · exact List.pairwise_cons.mpr h
      · rename_i h1 h2
        refine List.pairwise_cons.mpr ⟨?_, ih h.2⟩
        intro z hz
        rcases (mem_insertKey k z ys).mp hz with rfl | hz
        · omega
        · exact h.1 z hz

/-- groups are written in strictly increasing key order (so no key appears twice) -/
theorem keys_sorted (rows : List Row) : (keysOf rows).Pairwise (· < ·) := by
  induction rows with
  | nil => simp [keysOf]
  | cons r rs ih =>
    have hk : keysOf (r :: rs) = (match r.2 with | some k => insertKey k (keysOf rs) | none => keysOf rs) := rfl
    rw [hk]
    cases r.2 with
    | none => exact ih
    | some k => exact sorted_insertKey k _ ih

/-- every row of a group carries the group's key: a row is stored in the directory named by its
    key values … -/
theorem group_key (rows : List Row) (k : Nat) (g : List Nat) (h : (k, g) ∈ groups rows) :
    ∀ id ∈ g, ∃ r ∈ rows, r.1 = id ∧ r.2 = some k := by
  simp only [groups, List.mem_map] at h
  obtain ⟨k', _, hk⟩ := h
  injection hk with h1 h2
  subst h1; subst h2
  intro id hid
  simp only [List.mem_map, List.mem_filter] at hid
  obtain ⟨r, ⟨hr, hkey⟩, rfl⟩ := hid
  exact ⟨r, hr, rfl, by simpa using hkey⟩

/-- … and nowhere else: the group of key `k` holds exactly the rows with that key, in their
    original order, with their multiplicity. -/
theorem group_exact (rows : List Row) (k : Nat) (hk : ∃ r ∈ rows, r.2 = some k) :
    (k, (rows.filter (fun r => r.2 == some k)).map (·.1)) ∈ groups rows := by
  simp only [groups, List.mem_map]
  exact ⟨k, (mem_keysOf rows k).mpr hk, rfl⟩

/-- no empty group is written -/
theorem groups_nonempty (rows : List Row) (k : Nat) (g : List Nat) (h : (k, g) ∈ groups rows) : g ≠ [] := by
  simp only [groups, List.mem_map] at h
  obtain ⟨k', hk', hkg⟩ := h
  injection hkg with h1 h2
  subst h1; subst h2
  obtain ⟨r, hr, hkey⟩ := (mem_keysOf rows k').mp hk'
  intro hnil
  have : r.1 ∈ (rows.filter (fun r => r.2 == some k')).map (·.1) := by
    simp only [List.mem_map, List.mem_filter]; exact ⟨r, ⟨hr, by simp [hkey]⟩, rfl⟩
  rw [hnil] at this; cases this

theorem count_split (rows : List Row) (k : Nat) (ks : List Nat) (hnot : k ∉ ks) :
    (rows.filter (fun r => r.2 == some k)).length
      + (rows.filter (fun r => match r.2 with | some k' => decide (k' ∈ ks) | none => false)).length
      = (rows.filter (fun r => match r.2 with | some k' => decide (k' ∈ k :: ks) | none => false)).length := by
  induction rows with
  | nil => simp
  | cons r rs ih =>
    simp only [List.filter_cons]
    simp only [List.mem_cons, Bool.decide_or] at ih ⊢
    cases hr : r.2 with
    | none => simpa using ih
    | some k' =>
      by_cases hkk : k' = k
      · subst hkk; simp [hnot] at ih ⊢; omega
      · by_cases hin : k' ∈ ks
        · simp [hkk, hin] at ih ⊢; omega
        · simp [hkk, hin] at ih ⊢; exact ih

theorem count_keys (rows : List Row) (keys : List Nat) (hs : keys.Pairwise (· < ·)) :
    (keys.map (fun k => (rows.filter (fun r => r.2 == some k)).length)).sum
      = (rows.filter (fun r => match r.2 with | some k => decide (k ∈ keys) | none => false)).length := by
  induction keys with
  | nil =>
    simp only [List.map_nil, List.sum_nil]
    symm; rw [List.length_eq_zero_iff, List.filter_eq_nil_iff]
    intro r _; cases r.2 <;> simp
  | cons k ks ih =>
    rw [List.pairwise_cons] at hs
    simp only [List.map_cons, List.sum_cons, ih hs.2]
    have hnot : k ∉ ks := fun hk => by have := hs.1 k hk; omega
    exact count_split rows k ks hnot

/-- No row is lost or duplicated: the number of rows written equals the number of rows whose key
    is non-null (with `group_key`/`group_exact`: each exactly once, in its own directory). -/
theorem rows_conserved (rows : List Row) :
    ((groups rows).map (fun g => g.2.length)).sum = (rows.filter (fun r => r.2.isSome)).length := by
  simp only [groups, List.map_map, Function.comp_def, List.length_map]
  rw [count_keys rows _ (keys_sorted rows)]
  congr 1
  apply List.filter_congr
  intro r hr
  cases hk : r.2 with
  | none => simp
  | some k => simp; exact (mem_keysOf rows k).mpr ⟨r, hr, hk⟩

/-! ### directory text -/

theorem splitOn_ne_nil (sep : Char) (l : List Char) : splitOn sep l ≠ [] := by
  induction l with
  | nil => simp [splitOn]
  | cons c cs ih =>
    simp only [splitOn]
    split
    · simp
    · split <;> simp

theorem splitOn_no_sep (sep : Char) (s : List Char) (h : sep ∉ s) : splitOn sep s = [s] := by
  induction s with
  | nil => rfl
  | cons c cs ih =>
    have hc : c ≠ sep := fun e => h (by simp [e])
    have := ih (fun hm => h (List.mem_cons_of_mem _ hm))
    simp [splitOn, hc, this]

theorem splitOn_append_sep (sep : Char) (s rest : List Char) (h : sep ∉ s) :
    splitOn sep (s ++ sep :: rest) = s :: splitOn sep rest := by
  induction s with
  | nil => simp [splitOn]
  | cons c cs ih =>
    have hc : c ≠ sep := fun e => h (by simp [e])
    have := ih (fun hm => h (List.mem_cons_of_mem _ hm))
    simp [splitOn, hc, this]

/-- Splitting a joined path gives back the segments, as long as no segment contains the separator
    (the property's "single legal path segment"). -/
theorem split_join (sep : Char) (segs : List (List Char)) (hne : segs ≠ []) (h : ∀ s ∈ segs, sep ∉ s) :
    splitOn sep (joinWith sep segs) = segs := by
  induction segs with
  | nil => exact absurd rfl hne
  | cons s ss ih =>
    cases ss with
    | nil => simp [joinWith, splitOn_no_sep sep s (h s (by simp))]
    | cons t ts =>
      simp only [joinWith]
      rw [splitOn_append_sep sep s _ (h s (by simp))]
      rw [ih (by simp) (fun x hx => h x (List.mem_cons_of_mem _ hx))]

/-- hive directory names round-trip: names and value texts come back exactly, for any number of
    partition levels, provided names and value texts contain neither '/' nor '='. -/
theorem hive_rt (kvs : List (List Char × List Char)) (hne : kvs ≠ [])
    (h : ∀ kv ∈ kvs, '/' ∉ kv.1 ∧ '/' ∉ kv.2 ∧ '=' ∉ kv.1 ∧ '=' ∉ kv.2) :
    parseHive (renderHive kvs) = kvs := by
  unfold parseHive renderHive
  rw [split_join '/' _ (by simpa using hne) (by
    intro s hs
    simp only [List.mem_map] at hs
    obtain ⟨kv, hkv, rfl⟩ := hs
    obtain ⟨h1, h2, _, _⟩ := h kv hkv
    simp only [List.mem_append, List.mem_cons, not_or]
    exact ⟨h1, by decide, h2⟩)]
  induction kvs with
  | nil => exact absurd rfl hne
  | cons kv rest ih =>
    obtain ⟨_, _, h3, h4⟩ := h kv (by simp)
    simp only [List.map_cons, List.filterMap_cons]
    rw [splitOn_append_sep '=' kv.1 kv.2 h3, splitOn_no_sep '=' kv.2 h4]
    simp only
    cases rest with
    | nil => simp
    | cons r rs =>
      rw [ih (by simp) (fun x hx => h x (List.mem_cons_of_mem _ hx))]

example : groups [(0, some 2), (1, none), (2, some 0), (3, some 2)] = [(0, [2]), (2, [0, 3])] := by decide
example : parseHive (renderHive [("p".toList, "1".toList), ("q".toList, "x".toList)]) = [("p".toList, "1".toList), ("q".toList, "x".toList)] := by decide

end PqV.Props.C08
