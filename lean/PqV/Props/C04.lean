import PqV.Impl.Stats
import PqV.Gen.Stats
import Mathlib.Tactic.Linarith
/-!
# C04 — column statistics are exact
-/
namespace PqV.Props.C04
open PqV.Impl.Stats

theorem foldl_optMin_some (l : List Int) (m : Int) :
    ∃ r, l.foldl optMin (some m) = some r ∧ r ≤ m ∧ (∀ x ∈ l, r ≤ x) ∧ (r = m ∨ r ∈ l) := by
  induction l generalizing m with
  | nil => exact ⟨m, rfl, Int.le_refl _, by simp, Or.inl rfl⟩
  | cons a t ih =>
    simp only [List.foldl_cons, optMin]
    obtain ⟨r, hr, hle, hall, hmem⟩ := ih (if a < m then a else m)
    refine ⟨r, hr, ?_, ?_, ?_⟩
    · split at hle <;> omega
    · intro x hx
      rcases List.mem_cons.mp hx with rfl | hx
      · split at hle <;> omega
      · exact hall x hx
    · rcases hmem with h | h
      · split at h
        · right; rw [h]; exact List.mem_cons_self ..
        · left; exact h
      · right; exact List.mem_cons_of_mem _ h

theorem foldl_optMax_some (l : List Int) (m : Int) :
    ∃ r, l.foldl optMax (some m) = some r ∧ m ≤ r ∧ (∀ x ∈ l, x ≤ r) ∧ (r = m ∨ r ∈ l) := by
  induction l generalizing m with
  | nil => exact ⟨m, rfl, Int.le_refl _, by simp, Or.inl rfl⟩
  | cons a t ih =>
    simp only [List.foldl_cons, optMax]
    obtain ⟨r, hr, hle, hall, hmem⟩ := ih (if m < a then a else m)
    refine ⟨r, hr, ?_, ?_, ?_⟩
    · split at hle <;> omega
    · intro x hx
      rcases List.mem_cons.mp hx with rfl | hx
      · split at hle <;> omega
      · exact hall x hx
    · rcases hmem with h | h
      · split at h
        · right; rw [h]; exact List.mem_cons_self ..
        · left; exact h
      · right; exact List.mem_cons_of_mem _ h

/-- min is the smallest non-null value actually stored: a lower bound that is attained … -/
theorem min_exact (col : List (Option Int)) (m : Int) (h : colMin col = some m) :
    (∀ x, some x ∈ col → m ≤ x) ∧ some m ∈ col := by
  unfold colMin at h
  cases hp : presentVals col with
  | nil => simp [hp] at h
  | cons a t =>
    rw [hp] at h
    simp only [List.foldl_cons, optMin] at h
    obtain ⟨r, hr, hle, hall, hmem⟩ := foldl_optMin_some t a
    rw [hr] at h; injection h with h; subst h
    have hmemP : ∀ x, some x ∈ col ↔ x ∈ presentVals col := by
      intro x; simp [presentVals, List.mem_filterMap]
    constructor
    · intro x hx
      have := (hmemP x).mp hx
      rw [hp] at this
      rcases List.mem_cons.mp this with rfl | hx'
      · exact hle
      · exact hall x hx'
    · apply (hmemP r).mpr; rw [hp]
      rcases hmem with h | h
      · rw [h]; exact List.mem_cons_self ..
      · exact List.mem_cons_of_mem _ h

/-- … and dually for max -/
theorem max_exact (col : List (Option Int)) (m : Int) (h : colMax col = some m) :
    (∀ x, some x ∈ col → x ≤ m) ∧ some m ∈ col := by
  unfold colMax at h
  cases hp : presentVals col with
  | nil => simp [hp] at h
  | cons a t =>
    rw [hp] at h
    simp only [List.foldl_cons, optMax] at h
    obtain ⟨r, hr, hle, hall, hmem⟩ := foldl_optMax_some t a
    rw [hr] at h; injection h with h; subst h
    have hmemP : ∀ x, some x ∈ col ↔ x ∈ presentVals col := by
      intro x; simp [presentVals, List.mem_filterMap]
    constructor
    · intro x hx
      have := (hmemP x).mp hx
      rw [hp] at this
      rcases List.mem_cons.mp this with rfl | hx'
      · exact hle
      · exact hall x hx'
    · apply (hmemP r).mpr; rw [hp]
      rcases hmem with h | h
      · rw [h]; exact List.mem_cons_self ..
      · exact List.mem_cons_of_mem _ h

/-- a chunk with no non-null value carries no bounds, and only such a chunk -/
theorem no_bounds_iff_empty (col : List (Option Int)) :
    colMin col = none ↔ ∀ c ∈ col, c = none := by
  unfold colMin
  cases hp : presentVals col with
  | nil =>
    simp only [List.foldl_nil, true_iff]
    intro c hc
    cases c with
    | none => rfl
    | some x =>
      have : x ∈ presentVals col := by simp [presentVals, List.mem_filterMap]; exact hc
      rw [hp] at this; cases this
  | cons a t =>
    simp only [List.foldl_cons, optMin]
    obtain ⟨r, hr, _⟩ := foldl_optMin_some t a
    rw [hr]
    simp only [reduceCtorEq, false_iff]
    intro hall
    have : a ∈ presentVals col := by rw [hp]; exact List.mem_cons_self ..
    simp [presentVals, List.mem_filterMap] at this
    have := hall _ this
    cases this

theorem foldl_add (pages : List (List (Option Int))) (acc : Nat) :
    pages.foldl (fun a p => a + pageNulls p) acc = acc + pageNulls pages.flatten := by
  induction pages generalizing acc with
  | nil => simp [pageNulls]
  | cons p ps ih =>
    simp only [List.foldl_cons, List.flatten_cons, ih]
    simp [pageNulls, List.filter_append]; omega

/-- the null tally accumulated page by page equals the number of missing cells of the chunk, for
    EVERY split of the chunk into pages -/
theorem null_count_exact (pages : List (List (Option Int))) :
    (colStats pages).nullCount = (pages.flatten.filter Option.isNone).length := by
  simp only [colStats, nullTally]
  rw [foldl_add]; simp [pageNulls]

/-- the bounds do not depend on the paging at all -/
theorem bounds_independent_of_paging (p1 p2 : List (List (Option Int))) (h : p1.flatten = p2.flatten) :
    (colStats p1).min = (colStats p2).min ∧ (colStats p1).max = (colStats p2).max := by
  simp [colStats, h]

/-- The writer as it stands takes categorical bounds from the labels present, not from the
    category order (regenerated from `write_column`). -/
theorem cat_branch_now : PqV.Gen.Stats.catUsesCategoryOrder = false := by decide

/-- with the label order the categorical bounds are the exact bounds of the labels stored -/
theorem cat_minmax_exact (cats : List Int) (codes : List (Option Nat)) (m : Int)
    (h : (catStats false cats codes).1 = some m) :
    ∀ c, some c ∈ codes → ∀ x, cats[c]? = some x → m ≤ x := by
  intro c hc x hx
  simp only [catStats, Bool.false_eq_true, if_false] at h
  have := (min_exact _ m h).1 x
  apply this
  simp only [List.mem_map, List.mem_filterMap]
  exact ⟨c, ⟨some c, hc, rfl⟩, hx⟩

/-- by category order they are NOT (the repaired defect): categories [c,b,a] ↦ [3,2,1] -/
theorem cat_minmax_fails_by_category_order :
    ∃ (cats : List Int) (codes : List (Option Nat)),
      (catStats true cats codes).1 = some 3 ∧ (catStats true cats codes).2 = some 1 := by
  exact ⟨[3, 2, 1], [some 2, some 1, some 0], by decide, by decide⟩

theorem chain_later (b : Int × Int) (bs : List (Int × Int)) (hwf : ∀ x ∈ b :: bs, x.1 ≤ x.2)
    (hch : strictlyChained (b :: bs) = true) : ∀ k (hk : k < bs.length), b.2 < bs[k].1 := by
  induction bs generalizing b with
  | nil => intro k hk; simp at hk
  | cons c cs ihc =>
    intro k hk
    simp only [strictlyChained, Bool.and_eq_true, decide_eq_true_eq] at hch
    cases k with
    | zero => simpa using hch.1
    | succ k =>
      have hc := hwf c (by simp)
      have := ihc c (fun x hx => hwf x (List.mem_cons_of_mem _ hx)) hch.2 k (by simpa using hk)
      simp only [List.getElem_cons_succ]
      omega

/-- `sorted_partitioned_columns` is sound given exact statistics: if every row group's max is
    below the next row group's min, every value of an earlier row group is below every value of a
    later one. -/
theorem spc_sound (bounds : List (Int × Int)) (vals : List (List Int))
    (hlen : bounds.length = vals.length)
    (hexact : ∀ i (hi : i < bounds.length) (hj : i < vals.length), ∀ x ∈ vals[i], bounds[i].1 ≤ x ∧ x ≤ bounds[i].2)
    (hwf : ∀ b ∈ bounds, b.1 ≤ b.2)
    (hch : strictlyChained bounds = true) :
    ∀ i j (hi : i < vals.length) (hj : j < vals.length), i < j → ∀ x ∈ vals[i], ∀ y ∈ vals[j], x < y := by
  induction bounds generalizing vals with
  | nil =>
    intro i j hi; simp at hlen; omega
  | cons b bs ih =>
    cases vals with
    | nil => simp at hlen
    | cons v vs =>
      have hlen' : bs.length = vs.length := by simpa using hlen
      have hlater := chain_later b bs hwf hch
      have hch' : strictlyChained bs = true := by
        cases bs with
        | nil => rfl
        | cons c cs => simp only [strictlyChained, Bool.and_eq_true] at hch; exact hch.2
      intro i j hi hj hij x hx y hy
      cases i with
      | zero =>
        cases j with
        | zero => omega
        | succ j =>
          have hx' := (hexact 0 (by simp) (by simp) x (by simpa using hx)).2
          have hjl : j < bs.length := by simp at hj; omega
          have hy' := (hexact (j + 1) (by simp; omega) (by simpa using hj) y (by simpa using hy)).1
          have := hlater j hjl
          simp only [List.getElem_cons_zero, List.getElem_cons_succ] at hx' hy'
          omega
      | succ i =>
        cases j with
        | zero => omega
        | succ j =>
          have := ih vs hlen'
            (fun k hk hk' z hz => by
              have := hexact (k + 1) (by simp; omega) (by simp; omega) z (by simpa using hz)
              simpa using this)
            (fun x hx => hwf x (List.mem_cons_of_mem _ hx)) hch' i j (by simpa using hi) (by simpa using hj) (by omega)
            x (by simpa using hx) y (by simpa using hy)
          exact this

example : colStats [[some 3, none], [some (-1), some 7]] = { min := some (-1), max := some 7, nullCount := 1 } := by decide

end PqV.Props.C04
