import PqV.Impl.Access
import PqV.Gen.Access
import Mathlib.Tactic.Linarith
import PqV.Lemmas.Access
import PqV.Gen.HandleState
/-!
# C06 — every partial read agrees with the corresponding part of the full read
-/
namespace PqV.Props.C06
open PqV.Impl.Access

theorem total_cons (rg : RG) (rest : List RG) : total (rg :: rest) = rg.length + total rest := by
  simp [total]

/-- Writing each row group's rows at the running offset of a pre-allocated buffer is
    concatenation: the general form with an already filled prefix. -/
theorem fill_prefix (rgs : List RG) (pre : List (Option Nat)) (suffix : List (Option Nat)) :
    fill rgs pre.length (pre ++ List.replicate (total rgs) none ++ suffix)
      = pre ++ rgs.flatten.map some ++ suffix := by
  induction rgs generalizing pre with
  | nil => simp [fill, total]
  | cons rg rest ih =>
    simp only [fill, total_cons]
    have hplace : place (pre ++ List.replicate (rg.length + total rest) none ++ suffix) pre.length rg
        = (pre ++ rg.map some) ++ List.replicate (total rest) none ++ suffix := by
      unfold place
      rw [List.append_assoc pre, List.take_left' rfl]
      have : (pre ++ (List.replicate (rg.length + total rest) none ++ suffix)).drop (pre.length + rg.length)
          = List.replicate (total rest) none ++ suffix := by
        rw [List.drop_append, List.drop_of_length_le (by omega)]
        simp only [List.nil_append, Nat.add_sub_cancel_left]
        rw [show List.replicate (rg.length + total rest) (none : Option Nat)
              = List.replicate rg.length none ++ List.replicate (total rest) none from by
            simp [List.replicate_append_replicate]]
        rw [List.append_assoc, List.drop_left' (by simp)]
      rw [this]; simp [List.append_assoc]
    rw [hplace]
    have := ih (pre ++ rg.map some)
    simp only [List.length_append, List.length_map] at this
    rw [this]
    simp [List.append_assoc]

/-- `to_pandas()` returns the rows of the row groups in order, nothing unassigned. -/
theorem buffer_is_concat (rgs : List RG) : toPandas rgs = rgs.flatten.map some := by
  have := fill_prefix rgs [] []
  simpa [toPandas] using this

/-- A sliced or picked handle reads exactly the rows of the selected row groups, in the selected
    order (the selection itself is ordinary list slicing). -/
theorem slice_read (rgs : List RG) (start stop : Option Int) (step : Int) :
    toPandas (getSlice rgs start stop step) = (getSlice rgs start stop step).flatten.map some :=
  buffer_is_concat _

/-- iteration row group by row group, concatenated, is the full read (empty frames dropped) -/
theorem iter_concat (rgs : List RG) : (iterRowGroups rgs).flatten = toPandas rgs := by
  rw [buffer_is_concat]
  induction rgs with
  | nil => rfl
  | cons rg rest ih =>
    simp only [iterRowGroups, List.map_cons, List.filter_cons, buffer_is_concat, List.flatten_cons,
      List.flatten_nil, List.append_nil, List.map_append] at ih ⊢
    cases rg with
    | nil => simpa using ih
    | cons a t => simp [ih]

/-- reported counts equal the number of rows read, for any handle (slices included) -/
theorem counts_agree (rgs : List RG) : (toPandas rgs).length = count rgs := by
  rw [buffer_is_concat]
  simp [count, total, List.length_flatten]
  congr 1
  apply List.map_congr_left
  intro a _
  simp

theorem headTake_spec (rgs : List RG) (n : Nat) :
    ((rgs.take (headTake rgs n)).flatten).take n = rgs.flatten.take n := by
  induction rgs generalizing n with
  | nil => simp [headTake]
  | cons rg rest ih =>
    simp only [headTake]
    split
    · rename_i h
      simp only [List.take_succ_cons, List.take_zero, List.flatten_cons, List.flatten_nil, List.append_nil]
      rw [List.take_append_of_le_length h]
    · rename_i h
      have hlt : rg.length ≤ n := by omega
      rw [show 1 + headTake rest (n - rg.length) = headTake rest (n - rg.length) + 1 by omega]
      simp only [List.take_succ_cons, List.flatten_cons]
      rw [List.take_append, List.take_append, ih (n - rg.length)]

/-- `head(n)` returns the first `n` rows of the full read, for every `n` (0, exact row-group
    boundaries, more than the dataset holds), on a dataset with at least one row group. -/
theorem head_correct (initI : Bool) (rgs : List RG) (n : Nat) (h : rgs ≠ []) :
    head initI rgs n = some ((toPandas rgs).take n) := by
  cases rgs with
  | nil => exact absurd rfl h
  | cons rg rest =>
    simp only [head, buffer_is_concat]
    rw [← List.map_take, ← List.map_take, headTake_spec]

/-- on a dataset with zero row groups `head` must return the (empty) full read; as originally
    written it raised UnboundLocalError (repaired) -/
theorem head_empty (n : Nat) : head true [] n = some ((toPandas []).take n) := by
  simp [head, toPandas, fill, total]

/-- the current source binds the loop index before the loop (regenerated from `ParquetFile.head`) -/
theorem head_initialised_now : PqV.Gen.Access.headInitialisesI = true := by decide

theorem head_empty_fails_uninitialised (n : Nat) : head false [] n = none := rfl

example : head true [[1, 2], [3], [4, 5, 6]] 4 = some [some 1, some 2, some 3, some 4] := by decide


/-- a forward slice keeps the order of the dataset: the selected row groups are a sub-sequence -/
theorem forward_slice_sublist (rgs : List RG) (a b : Option Int) (k : Int) (hk : 0 < k) :
    (getSlice rgs a b k).Sublist rgs := by
  simp only [getSlice, pySliceIdx, hk, if_true]
  refine (List.Sublist.filterMap (fun i => rgs[i]?) List.filter_sublist).trans ?_
  rw [range_filterMap_getElem]
  exact List.Sublist.refl _

/-- **every access program reads whole row groups of the dataset**: after any chain of slices and
    picks that does not raise, each row group of the resulting handle is a row group of the original
    dataset, and what the handle reads is exactly those row groups' rows, in the handle's order. -/
theorem program_reads_whole_row_groups (rgs : List RG) (sels : List Sel) (out : List RG) (h : runSels rgs sels = some out) :
    (∀ rg ∈ out, rg ∈ rgs) ∧ toPandas out = out.flatten.map some := by
  refine ⟨?_, buffer_is_concat out⟩
  induction sels using List.reverseRecOn generalizing out with
  | nil =>
    simp only [runSels, List.foldl_nil, Option.some.injEq] at h
    subst h; exact fun rg hrg => hrg
  | append_singleton l s ih =>
    simp only [runSels, List.foldl_append, List.foldl_cons, List.foldl_nil] at h
    cases hm : List.foldl (fun acc s => acc.bind (fun r => applySel r s)) (some rgs) l with
    | none => rw [hm] at h; cases h
    | some mid =>
      rw [hm] at h
      simp only [Option.bind_some] at h
      have hmid := ih mid hm
      cases s with
      | slice a b k =>
        simp only [applySel, Option.some.injEq] at h
        subst h
        exact fun rg hrg => hmid rg (getSlice_mem mid a b k rg hrg)
      | pick i =>
        simp only [applySel] at h
        exact fun rg hrg => hmid rg (getInt_mem mid out i h rg hrg)

example : runSels [[1, 2], [3], [4, 5, 6], [7]] [.slice (some 1) none 1, .slice none none (-1), .pick 0] = some [[7]] := by decide

/-- the state a derived handle (`pf[i]`, `pf[a:b]`, hence `head` / `iter_row_groups`) and a pickled or
    copied handle take over from their source, as the source has it now (REGENERATED): file name, opener,
    metadata (the sliced copy for a derived handle), the nulls policy, the RESOLVED dtypes of the parent
    (`_base_dtype`: a slice must not re-derive them from its own row groups only), the time-zone map and
    the column-index dtype — the same seven entries on both paths -/
theorem handle_state_now :
    PqV.Gen.HandleState.pickled = ["fn=self.fn", "open=self.open", "fmd=self.fmd", "pandas_nulls=self.pandas_nulls",
      "_base_dtype=self._base_dtype", "tz=self.tz", "_columns_dtype=self._columns_dtype"] ∧
    PqV.Gen.HandleState.derived = ["fn=self.fn", "open=self.open", "fmd=fmd", "pandas_nulls=self.pandas_nulls",
      "_base_dtype=self._base_dtype", "tz=self.tz", "_columns_dtype=self._columns_dtype"] := by decide

end PqV.Props.C06
