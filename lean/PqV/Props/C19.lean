import PqV.Lemmas.Dataset
import PqV.Lemmas.DatasetComplete
import PqV.Gen.PartNumbering
/-!
# C19 — an append interrupted before its metadata update leaves the old dataset intact

`Impl.Dataset.appendOps` is the ordered list of filesystem operations a multi-file append
performs (tied to the real `open_with`/`mkdirs` call sequence by the `fs.trace` stream).
A crash / I/O failure at operation `k` means only the first `k` operations took effect.
-/
namespace PqV.Props.C19
open PqV.Impl.Dataset

/-- In no case does the append open (or write) an existing data file: every file touched before
    the summary is rewritten has a part number above all numbers referenced by the dataset. -/
theorem never_opens_existing (partitioned : Bool) (old : List RgRef) (nd : NewData) :
    ∀ op ∈ appendOps partitioned old nd, ∀ r ∈ old, target op ≠ some (.part r.dir r.id) := by
  intro op hop r hr heq
  simp only [appendOps, List.mem_append] at hop
  rcases hop with hop | hop
  · obtain ⟨d, id, hp, hge⟩ := dataOps_targets partitioned (maxPart old) nd 0 op hop _ heq
    have := lt_maxPart old r hr
    injection hp with h1 h2
    omega
  · simp only [metaOps, List.mem_cons, List.mem_nil_iff, or_false] at hop
    rcases hop with rfl | rfl | rfl | rfl | rfl | rfl <;> simp [target] at heq

/-- Crash before the summary metadata starts being rewritten: for EVERY crash point `k` up to
    the first `_metadata` operation, a fresh open reads exactly the previous content. -/
theorem crash_before_meta (partitioned : Bool) (fs : FS) (old : List RgRef) (nd : NewData)
    (hmeta : fs.get .pmeta = some (.refs old)) (k : Nat)
    (hk : k ≤ (dataOps partitioned (maxPart old) 0 nd).length) :
    readDS (runOps fs ((appendOps partitioned old nd).take k)) = readDS fs := by
  have htake : (appendOps partitioned old nd).take k = (dataOps partitioned (maxPart old) 0 nd).take k := by
    unfold appendOps; exact List.take_append_of_le_length hk
  rw [htake]
  have hsub : ∀ op ∈ (dataOps partitioned (maxPart old) 0 nd).take k, op ∈ dataOps partitioned (maxPart old) 0 nd :=
    fun op h => List.mem_of_mem_take h
  have hm : (runOps fs ((dataOps partitioned (maxPart old) 0 nd).take k)).get .pmeta = fs.get .pmeta := by
    apply runOps_get
    intro op hop heq
    obtain ⟨d, id, hp, _⟩ := dataOps_targets partitioned (maxPart old) nd 0 op (hsub op hop) _ heq
    cases hp
  unfold readDS
  rw [hm, hmeta]
  apply readRefs_congr
  intro r hr
  apply runOps_get
  intro op hop heq
  obtain ⟨d, id, hp, hge⟩ := dataOps_targets partitioned (maxPart old) nd 0 op (hsub op hop) _ heq
  have := lt_maxPart old r hr
  injection hp with h1 h2
  omega

/-- the order itself: every data-file operation precedes every summary-file operation -/
theorem parts_first_summary_last (partitioned : Bool) (old : List RgRef) (nd : NewData) :
    appendOps partitioned old nd
      = dataOps partitioned (maxPart old) 0 nd ++ metaOps (old ++ newRefs (maxPart old) 0 nd) := rfl

/-- **a completed append**: once every operation has taken effect a fresh open reads the previous
    rows followed by the new rows, in order (each incoming row group's pieces go to distinct directories) -/
theorem completed_append_reads_old_then_new (partitioned : Bool) (fs : FS) (old : List RgRef) (nd : NewData) (oldRows : List Nat)
    (hold : readRefs fs old = some oldRows) (hok : NdOk nd) :
    readDS (runOps fs (appendOps partitioned old nd)) = some (oldRows ++ rowsOf (newRefs (maxPart old) 0 nd)) :=
  append_complete partitioned fs old nd oldRows hold hok

/-- the model is explicit about the one window the property does not cover: while `_metadata` itself
    is being rewritten ('wb' truncates at open) the dataset cannot be opened at all -/
theorem metadata_window_unreadable (partitioned : Bool) (fs : FS) (old : List RgRef) (nd : NewData) :
    readDS (runOps fs ((appendOps partitioned old nd).take ((dataOps partitioned (maxPart old) 0 nd).length + 1))) = none := by
  have : (appendOps partitioned old nd).take ((dataOps partitioned (maxPart old) 0 nd).length + 1)
      = dataOps partitioned (maxPart old) 0 nd ++ [.openW .pmeta] := by
    unfold appendOps
    rw [List.take_append, List.take_of_length_le (by omega)]
    simp [metaOps]
  rw [this, runOps_append]
  simp [runOps, applyOp, readDS, get_put_eq]

-- non-vacuity: a two-part dataset, an append of two row groups, crash after the first new part
example :
    let old : List RgRef := [⟨"", 0, [1, 2]⟩, ⟨"", 1, [3]⟩]
    let fs : FS := [(.pmeta, .refs old), (.part "" 0, .data [1, 2]), (.part "" 1, .data [3])]
    readDS (runOps fs ((appendOps false old [[("", [4])], [("", [5, 6])]]).take 4)) = some [1, 2, 3]
    ∧ readDS (runOps fs (appendOps false old [[("", [4])], [("", [5, 6])]])) = some [1, 2, 3, 4, 5, 6] := by
  decide

/-- the source as it stands (REGENERATED from `writer.find_max_part` / `write_multi`): the first new
    part number of an append is one more than the highest number the metadata references (0 for an
    empty dataset), computed from the dataset's whole row-group list — the `maxPart` of the model -/
theorem part_numbering_now : PqV.Gen.PartNumbering.rule = "maxPlusOne" ∧
    PqV.Gen.PartNumbering.offsetAssignments = ["i_offset=0", "i_offset=find_max_part(fmd.row_groups)"] := by decide

end PqV.Props.C19
