import PqV.Impl.Dtypes
/-!
# C17 — metadata-only answers match the data actually read
-/
namespace PqV.Props.C17
open PqV.Impl.Dtypes PqV.Gen.Typemap

/-- every integer / boolean dtype the type tables can produce has a nullable counterpart (the
    promotion is total), and the counterpart is the same width and signedness -/
theorem promotion_total :
    ((simple ++ complexT).map (·.2)).all (fun d => !isPlainIntOrBool d || (lookupT nullable d).isSome) = true := by
  decide +kernel

theorem nullable_names :
    nullable = [("int8", "Int8"), ("int16", "Int16"), ("int32", "Int32"), ("int64", "Int64"),
                ("uint8", "UInt8"), ("uint16", "UInt16"), ("uint32", "UInt32"), ("uint64", "UInt64"), ("bool", "boolean")] := by
  decide +kernel

/-- the source as it stands: missing null counts mean "may have nulls", and the pandas_nulls-off
    branch yields a dtype (both regenerated from `_dtypes`) -/
theorem dtypes_source_now : missingNullCountMeansNulls = true ∧ nullsOffIsDtype = true := by decide

/-- how many nulls a chunk really holds is bounded by what its statistics admit -/
def consistent (c : ChunkStat) (actualNulls : Nat) : Prop :=
  (c.numRows = 0 → actualNulls = 0) ∧ (∀ k, c.stats = some (some k) → actualNulls = k)

/-- Soundness of the promotion: if the loop concludes "no nulls", then no row group holds a null —
    provided statistics without a null count count as "may have nulls". -/
theorem nullable_sound (rgs : List ChunkStat) (actual : List Nat) (hlen : actual.length = rgs.length)
    (hc : ∀ i (h1 : i < rgs.length) (h2 : i < actual.length), consistent rgs[i] actual[i])
    (h : mayHaveNulls true rgs = false) : ∀ a ∈ actual, a = 0 := by
  induction rgs generalizing actual with
  | nil =>
    intro a ha
    have : actual = [] := List.length_eq_zero_iff.mp (by simpa using hlen)
    subst this; cases ha
  | cons c cs ih =>
    cases actual with
    | nil => simp at hlen
    | cons a0 as =>
      have hc0 := hc 0 (by simp) (by simp)
      simp only [List.getElem_cons_zero] at hc0
      have hrest : mayHaveNulls true cs = false ∧ a0 = 0 := by
        simp only [mayHaveNulls] at h
        split at h
        · rename_i hz; exact ⟨h, hc0.1 hz⟩
        · rename_i hz
          cases hs : c.stats with
          | none => simp [hs] at h
          | some o =>
            cases o with
            | none => simp [hs] at h
            | some k =>
              simp only [hs] at h
              split at h
              · cases h
              · rename_i hk
                have : k = 0 := by simpa using hk
                exact ⟨h, by rw [hc0.2 k hs, this]⟩
      intro a ha
      rcases List.mem_cons.mp ha with rfl | ha
      · exact hrest.2
      · exact ih as (by simpa using hlen)
          (fun i h1 h2 => by
            have := hc (i + 1) (by simp; omega) (by simp; omega)
            simpa using this) hrest.1 a ha

/-- …and it is NOT sound when a missing null count is read as zero (the repaired defect):
    statistics present without null_count, one null in the chunk, "no nulls" concluded. -/
theorem missing_null_count_unsound :
    ∃ (rgs : List ChunkStat) (actual : List Nat),
      (∀ i (h1 : i < rgs.length) (h2 : i < actual.length), consistent rgs[i] actual[i]) ∧
      mayHaveNulls false rgs = false ∧ ∃ a ∈ actual, a ≠ 0 := by
  refine ⟨[⟨5, some none⟩], [1], ?_, by decide, 1, by simp, by decide⟩
  intro i h1 h2
  have : i = 0 := by simp at h1; omega
  subst this
  refine ⟨?_, ?_⟩
  · intro h; simp at h
  · intro k hk; simp at hk

/-- a column that may hold nulls is never predicted a plain (non-nullable) integer or boolean -/
theorem predict_never_plain (base : String) (rgs : List ChunkStat) (pn : Bool)
    (hb : (lookupT nullable base).isSome = true) (hn : mayHaveNulls missingNullCountMeansNulls rgs = true) :
    predict base rgs pn = (if pn then (lookupT nullable base).getD "" else "float64") := by
  unfold predict
  cases h : lookupT nullable base with
  | none => simp [h] at hb
  | some ext => simp [hn]

example : typemap "INT32" (some "UINT_8") 0 = "uint8" := by decide
example : predict "int64" [⟨3, some (some 0)⟩, ⟨2, none⟩] true = "Int64" := by decide

end PqV.Props.C17
