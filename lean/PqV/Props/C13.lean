import PqV.Impl.RowFilter
import Mathlib.Tactic.Linarith
import PqV.Gen.ColumnFilterShape
/-!
# C13 — row-level filtering returns exactly the rows that satisfy the predicate
-/
namespace PqV.Props.C13
open PqV.Impl.Prune PqV.Impl.RowFilter

theorem andPart_spec (isPart : Nat → Bool) (rows : List (List (Option Int))) (g : List Cond) (acc : List Bool)
    (hl : acc.length = rows.length) :
    andPart isPart rows g acc
      = List.zipWith (fun a r => a && g.all (fun c => isPart c.col || evalCond c r)) acc rows := by
  induction g generalizing acc with
  | nil =>
    simp only [andPart, List.all_nil, Bool.and_true]
    apply List.ext_getElem <;> simp [hl]
  | cons c cs ih =>
    simp only [andPart]
    split
    · rename_i hp
      rw [ih acc hl]
      apply List.ext_getElem <;> simp [hl, hp]
    · rename_i hp
      rw [ih _ (by simp [hl])]
      apply List.ext_getElem
      · simp [hl]
      · intro i h1 h2
        simp only [List.getElem_zipWith, List.getElem_map, List.all_cons]
        simp [hp, Bool.and_assoc]

theorem loop_spec (isPart : Nat → Bool) (rows : List (List (Option Int))) (gs : List (List Cond)) (out : List Bool)
    (hl : out.length = rows.length) :
    columnFilterLoop isPart rows gs out
      = List.zipWith (fun o r => o || gs.any (fun g => g.all (fun c => isPart c.col || evalCond c r))) out rows := by
  induction gs generalizing out with
  | nil =>
    simp only [columnFilterLoop, List.any_nil, Bool.or_false]
    apply List.ext_getElem <;> simp [hl]
  | cons g gs ih =>
    simp only [columnFilterLoop]
    rw [andPart_spec isPart rows g _ (by simp)]
    rw [ih _ (by simp [hl])]
    apply List.ext_getElem
    · simp [hl]
    · intro i h1 h2
      simp [Bool.or_assoc]

/-- The evaluation loops of `_column_filter` compute, row by row, the OR over groups of the AND over
    conditions (conditions on partition columns are skipped at row level), a flat list being one
    AND group. -/
theorem column_filter_dnf (isPart : Nat → Bool) (f : Filt) (rows : List (List (Option Int))) :
    columnFilter isPart f rows
      = rows.map (fun r => (normalise f).any (fun g => g.all (fun c => isPart c.col || evalCond c r))) := by
  unfold columnFilter
  rw [loop_spec isPart rows _ _ (by simp)]
  apply List.ext_getElem <;> simp

/-- a flat list means AND -/
theorem flat_is_and (isPart : Nat → Bool) (l : List Cond) (hne : l ≠ []) (rows : List (List (Option Int))) :
    columnFilter isPart (.flat l) rows = rows.map (fun r => l.all (fun c => isPart c.col || evalCond c r)) := by
  rw [column_filter_dnf]
  cases l with
  | nil => exact absurd rfl hne
  | cons a t => simp [normalise]

/-- Without partition conditions the selection is exactly the rows that satisfy the predicate
    (pandas cell semantics): the documented meaning. -/
theorem row_filter_exact_partial (f : Filt) (rows : List (List (Option Int))) :
    columnFilter (fun _ => false) f rows
      = rows.map (fun r => (normalise f).any (fun g => g.all (fun c => evalCond c r))) := by
  rw [column_filter_dnf]; simp

/-- BEFORE THE REPAIR (the model with partition conditions skipped): the full statement ("conditions on partition
    columns are honoured exactly") was FALSE at row level inside OR groups: the partition term was dropped (fixed finding).  Witness: one row whose
    partition value fails the first group's partition condition is still selected. -/
theorem or_partition_fails :
    ∃ (f : Filt) (rows : List (List (Option Int))),
      columnFilter (fun c => c == 0) f rows
        ≠ rows.map (fun r => (normalise f).any (fun g => g.all (fun c => evalCond c r))) := by
  refine ⟨.nested [[⟨0, "==", 1, []⟩, ⟨1, ">", 5, []⟩], [⟨1, "<", 0, []⟩]], [[some 2, some 7]], by decide⟩

/-! ### the repaired evaluation: partition conditions count, evaluated per row group -/

theorem andPartRG_eq (isPart : Nat → Bool) (rgSat : Nat → Cond → Bool) (sizes : List Nat) (rows : List (List (Option Int)))
    (hpart : ∀ c : Cond, isPart c.col = true → partitionTerm rgSat sizes c = rows.map (evalCond c)) (g : List Cond) (acc : List Bool) :
    andPartRG isPart rgSat sizes rows g acc = andPart (fun _ => false) rows g acc := by
  induction g generalizing acc with
  | nil => rfl
  | cons c cs ih =>
    simp only [andPartRG, andPart, Bool.false_eq_true, if_false]
    split
    · rename_i hp
      rw [hpart c hp, ih]
    · rw [ih]

theorem loopRG_eq (isPart : Nat → Bool) (rgSat : Nat → Cond → Bool) (sizes : List Nat) (rows : List (List (Option Int)))
    (hpart : ∀ c : Cond, isPart c.col = true → partitionTerm rgSat sizes c = rows.map (evalCond c)) (gs : List (List Cond)) (out : List Bool) :
    columnFilterLoopRG isPart rgSat sizes rows gs out = columnFilterLoop (fun _ => false) rows gs out := by
  induction gs generalizing out with
  | nil => rfl
  | cons g gs ih =>
    simp only [columnFilterLoopRG, columnFilterLoop]
    rw [andPartRG_eq isPart rgSat sizes rows hpart, ih]

/-- **row-level filtering is exact, partition conditions included** (the code as repaired: `_column_filter` no longer skips
    a condition on a partition column but ANDs / ORs in `_partition_term`, one flag per row group from the pruning's own test,
    repeated over the row group's rows).  Provided that flag is the condition's truth value on every row of the row group —
    which is what directory partitioning gives (all rows of a row group carry the directory's key, C08 `group_key`) together
    with the pruning test being exact on a single value (C05 `filter_val_sound` at min = max) — the selection is, row by
    row, the OR over groups of the AND over ALL conditions of the group, a flat list being one AND group. -/
theorem row_filter_exact (isPart : Nat → Bool) (rgSat : Nat → Cond → Bool) (sizes : List Nat) (f : Filt)
    (rows : List (List (Option Int)))
    (hpart : ∀ c : Cond, isPart c.col = true → partitionTerm rgSat sizes c = rows.map (evalCond c)) :
    columnFilterRG isPart rgSat sizes f rows
      = rows.map (fun r => (normalise f).any (fun g => g.all (fun c => evalCond c r))) := by
  unfold columnFilterRG
  rw [loopRG_eq isPart rgSat sizes rows hpart]
  exact row_filter_exact_partial f rows

/-- the hypothesis is satisfiable and the statement not vacuous: two row groups (partition value 1, then 2), the OR of
    `p == 1 ∧ x > 5` and `x < 0` — the row of partition 2 with x = 7, which the code returned before the repair
    (`or_partition_fails`), is not selected -/
example :
    columnFilterRG (fun c => c == 0) (fun i c => evalCond c [some (Int.ofNat (i + 1)), none]) [1, 1]
      (.nested [[⟨0, "==", 1, []⟩, ⟨1, ">", 5, []⟩], [⟨1, "<", 0, []⟩]]) [[some 1, some 7], [some 2, some 7]]
      = [true, false] := by decide

/-! ### selection slicing -/

theorem sliceSel_flatten (sizes : List Nat) (sel : List Bool) (h : sizes.sum = sel.length) :
    (sliceSel sizes sel).flatten = sel := by
  induction sizes generalizing sel with
  | nil => simp [sliceSel] at *; exact (List.eq_nil_of_length_eq_zero h.symm)
  | cons n rest ih =>
    simp only [sliceSel, List.flatten_cons]
    have : rest.sum = (sel.drop n).length := by simp at h ⊢; omega
    rw [ih _ this, List.take_append_drop]

theorem keep_append {α} (a b : List α) (sa sb : List Bool) (h : a.length = sa.length) :
    keep (a ++ b) (sa ++ sb) = keep a sa ++ keep b sb := by
  unfold keep
  rw [List.zip_append h]; simp

/-- Applying the selection slice by slice (per row group in `to_pandas`, per page in `read_col`) and
    concatenating is the same as applying the whole selection to the concatenation. -/
theorem mask_pages {α} (pages : List (List α)) (sel : List Bool) (h : (pages.map List.length).sum = sel.length) :
    ((pages.zip (sliceSel (pages.map List.length) sel)).map (fun p => keep p.1 p.2)).flatten
      = keep pages.flatten sel := by
  induction pages generalizing sel with
  | nil => simp [sliceSel, keep]
  | cons p ps ih =>
    simp only [List.map_cons, sliceSel, List.zip_cons_cons, List.flatten_cons]
    have hlen : (ps.map List.length).sum = (sel.drop p.length).length := by simp at h ⊢; omega
    rw [ih _ hlen]
    have hp : p.length = (sel.take p.length).length := by simp at h ⊢; omega
    rw [← keep_append p ps.flatten _ _ hp, List.take_append_drop]

/-- Inside a page, filtering the level array and the value array separately (as `read_col` does)
    and scattering back gives exactly the selected rows of the page, nulls included. -/
theorem select_page_exact {α} (defi : List Bool) (vals : List α) (sel : List Bool)
    (hv : vals.length = (defi.filter id).length) (hs : sel.length = defi.length) :
    assemble (selectPage defi vals sel).1 (selectPage defi vals sel).2 = keep (assemble defi vals) sel := by
  induction defi generalizing vals sel with
  | nil =>
    cases sel with
    | nil => simp [selectPage, assemble, keep]
    | cons a t => simp at hs
  | cons d ds ih =>
    cases sel with
    | nil => simp at hs
    | cons s ss =>
      have hss : ss.length = ds.length := by simpa using hs
      cases d with
      | false =>
        have hv' : vals.length = (ds.filter id).length := by simpa using hv
        have := ih vals ss hv' hss
        cases s <;> simp [selectPage, assemble, keep] at this ⊢ <;> exact this
      | true =>
        cases vals with
        | nil => simp at hv
        | cons v vs =>
          have hv' : vs.length = (ds.filter id).length := by simpa using hv
          have := ih vs ss hv' hss
          cases s <;> simp [selectPage, assemble, keep] at this ⊢ <;> exact this

/-- the filtered row count is the number of selected rows -/
theorem count_is_length {α} (l : List α) (sel : List Bool) (h : l.length = sel.length) :
    (keep l sel).length = (sel.filter id).length := by
  induction l generalizing sel with
  | nil => cases sel <;> simp [keep] at *
  | cons a t ih =>
    cases sel with
    | nil => simp at h
    | cons s ss =>
      have := ih ss (by simpa using h)
      cases s <;> simp [keep] at this ⊢ <;> exact this

example : columnFilter (fun _ => false) (.flat [⟨0, ">", 1, []⟩, ⟨1, ">", 2, []⟩]) [[some 5, some 0], [some 5, some 9]]
    = [false, true] := by decide

/-- the control skeleton of `ParquetFile._column_filter` as the source has it now (REGENERATED), which
    `Impl.RowFilter.columnFilter` and `column_filter_dnf` assume: a flat list of conditions is one AND
    group; the result starts all-false; every AND group gets its OWN all-true accumulator, conditions
    are AND-ed into it and the group is OR-ed into the result; a condition on a partition column is
    evaluated per row group (`_partition_term`: the pruning's test once per row group, repeated over its rows) and merged with
    the group's own operator before the `continue`, in both branches -/
theorem column_filter_shape_now :
    PqV.Gen.ColumnFilterShape.flatListIsOneAndGroup = true ∧ PqV.Gen.ColumnFilterShape.resultStartsAllFalse = true ∧
    PqV.Gen.ColumnFilterShape.andAccumulatorPerGroup = true ∧
    PqV.Gen.ColumnFilterShape.skipPartitionInSingle = "rowgroup-term:BitOr" ∧
    PqV.Gen.ColumnFilterShape.skipPartitionInGroup = "rowgroup-term:BitAnd" ∧
    PqV.Gen.ColumnFilterShape.partitionTerm = "pruning-test-per-row-group" ∧
    PqV.Gen.ColumnFilterShape.groupMerges = ["out|=and_part"] ∧ PqV.Gen.ColumnFilterShape.innerOps = ["BitAnd"] ∧
    PqV.Gen.ColumnFilterShape.singleOps = ["BitOr"] := by decide

end PqV.Props.C13
