import PqV.Spec.Thrift
import PqV.Lemmas.Thrift
import PqV.Impl.ThriftSer
import PqV.Gen.Idl
import PqV.Gen.Specs
import PqV.Gen.CallSites
import PqV.Lemmas.ThriftSerRefine
import PqV.Lemmas.ThriftReadRefine
/-!
# C10 — metadata serialisation is lossless, IDL-conformant and safe for any size
Table obligations over the REGENERATED tables (IDL, specs/children, call sites).
-/
namespace PqV.Props.C10
open PqV.Gen

def idlFields (s : String) : Option (List Idl.Field) := (Idl.structs.find? (·.1 == s)).map (·.2)

/-- every (field name ↦ id) of the hand-maintained `specs` table is what the IDL declares -/
def idsAgree : Bool :=
  Specs.specs.all fun (s, fs) =>
    match idlFields s with
    | some ifs => fs.all fun (n, id) => ifs.any fun f => f.name == n && f.id == id
    | none => false

theorem ids_agree : idsAgree = true := by decide +kernel

/-- …and no IDL field of those structs is missing from `specs` -/
def specsComplete : Bool :=
  Specs.specs.all fun (s, fs) =>
    match idlFields s with
    | some ifs => ifs.all fun f => fs.any fun (n, id) => f.name == n && f.id == id
    | none => false

theorem specs_complete : specsComplete = true := by decide +kernel

/-- the `children` table names the struct type the IDL gives the field (directly or as list element) -/
def childrenAgree : Bool :=
  Specs.children.all fun (s, cs) =>
    match idlFields s with
    | some ifs => cs.all fun (fname, cname) => ifs.any fun f =>
        f.name == fname && (f.ty == .struct cname || f.ty == .list (.struct cname))
    | none => true           -- struct not in the IDL subset used by fastparquet (e.g. crypto)

theorem children_agree : childrenAgree = true := by decide +kernel

/-- fields the writer's loop `for i in range(loopLo, loopHi)` never reaches -/
def droppedFields : List (String × String × Nat) :=
  Specs.specs.flatMap fun (s, fs) => (fs.filter fun (_, id) => id < Specs.loopLo || id ≥ Specs.loopHi).map fun (n, id) => (s, n, id)

/-- The full statement (every declared field is serialised) is FALSE: exactly these two fields with
    id 14 are silently dropped on (re-)serialisation (known finding C10-field14).  Any further
    dropped field breaks this theorem. -/
theorem field14_dropped :
    droppedFields = [("LogicalType", "UUID", 14), ("ColumnMetaData", "bloom_filter_offset", 14)] := by decide +kernel

def isIntTy : Idl.TT → Bool
  | .i8 | .i16 | .i32 | .i64 | .enum _ => true
  | _ => false
def is32 : Idl.TT → Bool
  | .i8 | .i16 | .i32 | .enum _ => true
  | _ => false

/-- a construction site marks its integer fields correctly: those and only those that the IDL
    declares narrower than 64 bits are flagged 32-bit -/
def siteOk (s : CallSites.Site) : Bool :=
  match idlFields s.struct with
  | none => false
  | some ifs =>
    s.fields.all fun fname =>
      match ifs.find? (·.name == fname) with
      | none => false
      | some f =>
        if isIntTy f.ty then
          (if s.marker == "all" then is32 f.ty
           else if s.marker == "list" then (s.i32list.contains f.id) == is32 f.ty
           else !is32 f.ty)
        else true

def badSites : List (String × Nat × String) := (CallSites.sites.filter (fun s => !siteOk s)).map fun s => (s.file, s.line, s.struct)

/-- every Thrift construction site in writer.py / util.py / api.py carries the right 32-bit markers,
    except the throw-away `SchemaElement(type=BOOLEAN)` inside `make_definitions`, which is only passed
    to `encode_plain` and never serialised -/
theorem callsite_markers_ok : badSites.map (fun b => (b.1, b.2.2)) = [("writer.py", "SchemaElement")] := by decide +kernel

/-- `IntType.bitWidth` (i8) and `RowGroup.ordinal` (i16) are the only fields narrower than 32 bits: the (wrong) re-typing of narrow integers is confined to it (known finding C10-i8) -/
def narrowFields : List (String × String) :=
  Idl.structs.flatMap fun (s, fs) => (fs.filter fun f => f.ty == .i8 || f.ty == .i16).map fun f => (s, f.name)

theorem narrow_fields : narrowFields = [("IntType", "bitWidth"), ("RowGroup", "ordinal")] := by decide +kernel

/-- **lossless at specification level, for every structure**: the compact-protocol decoder the Lean
    reader uses returns exactly the structure that was encoded — any nesting of structs and lists,
    short and long field headers, short and long list headers, booleans in fields and in lists, all
    integer widths, binaries, doubles — and leaves the bytes that follow untouched.  (The serialiser
    of fastparquet is tied to this specification by the 3-way correspondence; where it departs —
    field id 14, narrow ints, empty-list type byte — is listed as known findings.) -/
theorem spec_roundtrip_any_structure (fs : List (Nat × PqV.Spec.TVal)) (hok : PqV.Spec.fieldsOk 0 fs = true) (rest : List Nat) :
    PqV.Spec.decStruct (PqV.Spec.encFields 0 fs ++ rest) = some (.struct fs, rest) :=
  PqV.Spec.decStruct_enc fs hok rest

example : PqV.Spec.fieldsOk 0 [(1, .i32 (-5)), (3, .list 1 [.bool true, .bool false]), (20, .struct [(2, .binary [7, 8])])] = true := by
  decide

/-- **the serialiser model refines the specification encoder** (all structures, unbounded nesting):
    whenever the Python-level structure handed to `ThriftObject.to_bytes` has an IDL-level reading
    (`specThrift`: every populated field in the regenerated loop range `Specs.loopLo..loopHi`, no
    empty list, list items of the first item's kind, integers within int64, lengths below 2^64),
    the model of `to_bytes` (Impl.ThriftSer, tied to cencoding.pyx by the correspondence stream)
    emits bytes the specification decoder reads back as exactly that structure, leaving the bytes that
    follow untouched.  The excluded inputs are exactly the known findings (field id ≥ 14 dropped,
    empty-list element type, ints outside int64 wrap) — see `field14_dropped`, `narrow_fields`. -/
theorem serialiser_lossless (m : PqV.Impl.ThriftSer.Marker) (es : List (Nat × PqV.Impl.ThriftSer.PyT))
    (fs : List (Nat × PqV.Spec.TVal)) (tail : List Nat)
    (h : PqV.Impl.ThriftSer.specThrift ((PqV.Impl.ThriftSer.PyT.dict m es).weight + 2) m es = some fs) :
    ∃ out, PqV.Impl.ThriftSer.toBytes (.dict m es) = some out ∧
      PqV.Spec.decStruct (out ++ tail) = some (.struct fs, tail) :=
  PqV.Impl.ThriftSer.toBytes_lossless m es fs tail h

/-- the premise is met by a nested structure with a list of structs, a string and a marked i32 -/
example : (PqV.Impl.ThriftSer.specThrift
    ((PqV.Impl.ThriftSer.PyT.dict (.ids [1]) [(1, .int 7), (2, .list [.dict .none [(1, .str [104, 105])], .dict .none [(3, .int (-2))]]),
        (4, .bytes [1, 2, 3])]).weight + 2)
    (.ids [1]) [(1, .int 7), (2, .list [.dict .none [(1, .str [104, 105])], .dict .none [(3, .int (-2))]]), (4, .bytes [1, 2, 3])]).isSome = true := by
  decide +kernel

/-- **write then read through the models of the real code** (`ThriftObject.to_bytes`, then
    `from_buffer` / `read_thrift`): for every structure with an IDL-level reading `fs` — any nesting —
    the reader consumes exactly the serialised bytes, leaves what follows untouched and returns
    `pyOf (.struct fs)`: the same fields in id order, i32 / i64 told apart by the marker the reader
    rebuilds (`'i32'` / `'i32list'`), binaries as bytes (as text inside lists), lists and nested
    structs recursively.  Nothing else of the input survives: entries that are `None` or outside the
    serialiser's loop range do not (the latter is the known finding `field14_dropped`). -/
theorem read_after_write (m : PqV.Impl.ThriftSer.Marker) (es : List (Nat × PqV.Impl.ThriftSer.PyT))
    (fs : List (Nat × PqV.Spec.TVal)) (tail : List Nat)
    (h : PqV.Impl.ThriftSer.specThrift ((PqV.Impl.ThriftSer.PyT.dict m es).weight + 2) m es = some fs) :
    ∃ out, PqV.Impl.ThriftSer.toBytes (.dict m es) = some out ∧
      PqV.Impl.ThriftSer.fromBuffer (out ++ tail) = some (PqV.Impl.ThriftSer.pyOf (.struct fs), tail) :=
  PqV.Impl.ThriftSer.fromBuffer_toBytes m es fs tail h

/-- **losslessness, end to end over the models of the real code**: write `x`, read the bytes back,
    and the structure obtained has exactly the IDL-level reading `x` had — `spec (read (write x)) =
    spec x` — for every structure with such a reading, at any nesting depth. -/
theorem roundtrip_same_reading (m : PqV.Impl.ThriftSer.Marker) (es : List (Nat × PqV.Impl.ThriftSer.PyT))
    (fs : List (Nat × PqV.Spec.TVal)) (tail : List Nat)
    (h : PqV.Impl.ThriftSer.specThrift ((PqV.Impl.ThriftSer.PyT.dict m es).weight + 2) m es = some fs) :
    ∃ out m' es', PqV.Impl.ThriftSer.toBytes (.dict m es) = some out ∧
      PqV.Impl.ThriftSer.fromBuffer (out ++ tail) = some (.dict m' es', tail) ∧
      ∀ fuel, 15 + PqV.Impl.ThriftSer.needFields fs ≤ fuel → PqV.Impl.ThriftSer.specThrift fuel m' es' = some fs :=
  PqV.Impl.ThriftSer.roundtrip_same_reading m es fs tail h

/-- the reader model inverts the SPECIFICATION encoder on every canonical structure (so it reads what
    any conforming writer emits for these shapes, not only what fastparquet's serialiser emits) -/
theorem reader_inverts_spec_encoder (fs : List (Nat × PqV.Spec.TVal)) (hc : PqV.Impl.ThriftSer.canonFields 0 fs = true) (tail : List Nat) :
    PqV.Impl.ThriftSer.fromBuffer (PqV.Spec.encFields 0 fs ++ tail) = some (PqV.Impl.ThriftSer.pyOf (.struct fs), tail) :=
  PqV.Impl.ThriftSer.fromBuffer_enc fs hc tail

example : PqV.Impl.ThriftSer.canonFields 0 [(1, .i32 7), (2, .list 12 [.struct [(1, .binary [104, 105])], .struct [(3, .i64 (-2))]]),
    (4, .binary [1, 2, 3]), (5, .bool true)] = true := by decide +kernel
example : PqV.Impl.ThriftSer.fromBuffer (PqV.Spec.encFields 0 [(1, .i32 7), (3, .list 8 [.binary [104]]), (5, .bool false)] ++ [9])
    = some (PqV.Impl.ThriftSer.pyOf (.struct [(1, .i32 7), (3, .list 8 [.binary [104]]), (5, .bool false)]), [9]) :=
  reader_inverts_spec_encoder _ (by decide +kernel) [9]

end PqV.Props.C10
