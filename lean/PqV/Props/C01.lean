import PqV.Lemmas.Plain
import PqV.Lemmas.Varint
import PqV.Gen.SkipDef
import PqV.Lemmas.KPlain
import PqV.Gen.RangeIndex
import PqV.Lemmas.SkipDef
import PqV.Lemmas.ReadPage
import PqV.Gen.ReadGuards
/-!
# C01 — write → read round trip under every write option

The round-trip oracle runs on the real code (harness/c01.py) and every written file is decoded by the
Lean reader `Spec.File` (C02).  The theorems here cover the parts of the pipeline that are pure
arithmetic or layout and hold for ALL inputs: the reader's shortcut over null-free definition levels
matches the block the writer lays down (both REGENERATED from the source), the writer's two level
layouts decode to the intended levels, INT96 and time-unit conversions are exact inverses, and
cutting a column into pages at any offsets loses nothing.
-/
namespace PqV.Props.C01
open PqV.Spec PqV.Gen.SkipDef PqV.Impl

/-- **the reader's shortcut skips exactly the block the writer wrote**, for every row count — the
    constants 6 / 64 / 128 of `skip_definition_bytes` and the layout of `make_definitions` are
    regenerated from the source on every run, so an edit to either that breaks the agreement breaks
    this theorem.  (`skipLen`: bytes `skip_definition_bytes(io, num)` steps over; `blockLen`: length prefix +
    varint(num << 1) + the value byte; both in `Impl.ReadPage` / `Lemmas.SkipDef`.) -/
theorem skip_matches_block (num : Nat) : skipLen num = blockLen num := skipLen_eq_blockLen num

/-- the value byte of the null-free block is the level it stands for -/
theorem block_value_now : value = 1 := by decide

/-- **the null-free block decodes to `num` levels 1** under the specification reader -/
theorem nullfree_block_decodes (num : Nat) (tail : List Nat) (h : uvarintLen (num * 2) + 1 < 2 ^ 32) :
    levelsV1 1 num (leBytes 4 (encodeRuns 1 [Run.rle num 1]).length ++ encodeRuns 1 [Run.rle num 1] ++ tail)
      = some (List.replicate num 1, tail) := by
  have hw : widthFor 1 = 1 := by decide
  have := levelsV1_runs 1 num (by decide) [Run.rle num 1] tail (by rw [hw]; intro r hr; simp at hr; subst hr; simp [Run.wf])
    (by simp [Run.values]) (by
      rw [hw]
      simp only [encodeRuns, List.flatMap_cons, List.flatMap_nil, List.append_nil, encodeRun, List.length_append, leBytes_length]
      unfold uvarintLen at h; omega)
  rw [hw] at this
  simpa [Run.values] using this

/-- **the block with nulls** (one bit-packed run of the not-null bits, padded to a whole byte) decodes to the bits -/
theorem nullable_block_decodes (bits pad : List Nat) (hb : ∀ v ∈ bits ++ pad, v < 2) (h8 : (bits ++ pad).length % 8 = 0)
    (tail : List Nat) (hlen : (encodeRuns 1 [Run.bp (bits ++ pad)]).length < 2 ^ 32) :
    levelsV1 1 bits.length (leBytes 4 (encodeRuns 1 [Run.bp (bits ++ pad)]).length ++ encodeRuns 1 [Run.bp (bits ++ pad)] ++ tail)
      = some (bits, tail) := by
  have hw : widthFor 1 = 1 := by decide
  have := levelsV1_runs 1 bits.length (by decide) [Run.bp (bits ++ pad)] tail
    (by
      rw [hw]; intro r hr; simp only [List.mem_cons, List.mem_nil_iff, or_false] at hr; subst hr
      simp only [Run.wf, Bool.and_eq_true, decide_eq_true_eq, List.all_eq_true]
      exact ⟨h8, fun v hv => by simpa using hb v hv⟩)
    (by simp [Run.values]) (by rw [hw]; exact hlen)
  rw [hw] at this
  simpa [Run.values] using this

/-- **INT96** (nanoseconds of day + Julian day) is an exact encoding of every nanosecond instant -/
theorem int96_roundtrip (ns : Int) :
    let day := ns / 86400000000000 + 2440588
    let nod := ns % 86400000000000
    (day - 2440588) * 86400000000000 + nod = ns ∧ 0 ≤ nod ∧ nod < 86400000000000 := by
  refine ⟨?_, Int.emod_nonneg _ (by norm_num), Int.emod_lt_of_pos _ (by norm_num)⟩
  omega

/-- **time units**: scaling a stored value up to nanoseconds and back is exact -/
theorem unit_scaling_exact (x : Int) (f : Int) (hf : 0 < f) : x * f / f = x := Int.mul_ediv_cancel x (by omega)

/-- **paging**: cutting a column at any offset and concatenating the pieces gives the column -/
theorem pages_concat {α} (xs : List α) (k : Nat) : xs.take k ++ xs.drop k = xs := List.take_append_drop k xs

/-! ### non-vacuity -/
example : skipLen 1000 = 7 ∧ skipLen 10 = 6 ∧ skipLen 20000 = 8 := by decide
example : blockLen 20000 = 8 := by rw [← skip_matches_block]; decide


section writerBlock
open PqV.Spec PqV.Impl

/-- **the level block the writer emits for a column with nulls decodes to the not-null bits**: the
    model of `make_definitions` (run header `len(out) << 1 | 1`, then `convert`'s boolean packing
    `writerPackBools`, tied to the real code by the `pack_bools` correspondence stream) is one
    well-formed bit-packed run of the bits padded with zeros, so the specification reader returns the
    bits and continues right behind the block — for every number of rows, incl. multiples of 8 where
    the writer appends a whole padding byte. -/
theorem writer_level_block_decodes (bits tail : List Nat) (hb : ∀ v ∈ bits, v < 2)
    (hlen : (uvarintEnc ((writerPackBools bits).length * 2 + 1) ++ writerPackBools bits).length < 2 ^ 32) :
    levelsV1 1 bits.length
      (leBytes 4 (uvarintEnc ((writerPackBools bits).length * 2 + 1) ++ writerPackBools bits).length
        ++ (uvarintEnc ((writerPackBools bits).length * 2 + 1) ++ writerPackBools bits) ++ tail) = some (bits, tail) := by
  set pad := List.replicate (8 - bits.length % 8) 0 with hpad
  have hP8 : (bits ++ pad).length % 8 = 0 := by simp [hpad]; omega
  have hPb : ∀ v ∈ bits ++ pad, v < 2 := by
    intro v hv
    rcases List.mem_append.mp hv with h | h
    · exact hb v h
    · rw [hpad, List.mem_replicate] at h; omega
  have hw : writerPackBools bits = packLE 1 (bits ++ pad) := writerPackBools_eq bits hb
  have hl : (writerPackBools bits).length = (bits ++ pad).length / 8 := by
    rw [hw, packLE_length]; omega
  have hbody : uvarintEnc ((writerPackBools bits).length * 2 + 1) ++ writerPackBools bits
      = encodeRuns 1 [Run.bp (bits ++ pad)] := by
    rw [hl, hw]
    simp only [encodeRuns, List.flatMap_cons, List.flatMap_nil, List.append_nil, encodeRun]
  rw [hbody] at hlen ⊢
  exact nullable_block_decodes bits pad hPb hP8 tail hlen

example : writerPackBools [1, 0, 1, 1, 0, 0, 0, 1] = [141, 0] := by decide

end writerBlock

section rangeIndex
open PqV.Gen.RangeIndex

/-- Python's `len(range(start, stop, step))` for a non-zero step -/
def rangeLen (start stop step : Int) : Nat :=
  if 0 < step then (if start < stop then ((stop - start - 1) / step + 1).toNat else 0)
  else (if stop < start then ((start - stop - 1) / (-step) + 1).toNat else 0)

theorem ediv_pred (n s : Int) (hs : 0 < s) : (n * s - 1) / s = n - 1 := by
  have e : n * s - 1 = (s - 1) + (n - 1) * s := by ring
  rw [e, Int.add_mul_ediv_right _ _ (by omega), Int.ediv_eq_zero_of_lt (by omega) (by omega)]
  omega

/-- **a written RangeIndex is regenerated with exactly as many labels as rows, for every start, every non-zero step
    (negative steps too) and every row count**: `pre_allocate` rebuilds `RangeIndex(start, stop, step)[:size]` with the
    `stop` expression REGENERATED from api.py; the slice keeps `min size len` labels, and this theorem says that is
    `size`, so assigning the index to the frame cannot fail and label `i` is `start + i·step`.  (With the earlier
    `start + size·step + 1` the statement is false exactly for `step = -1`, see below.) -/
theorem range_index_regenerated_now (start step : Int) (size : Nat) (h : step ≠ 0) :
    slicedToSize = true ∧ min size (rangeLen start (stopExpr start step size) step) = size := by
  refine ⟨by decide, ?_⟩
  unfold rangeLen stopExpr
  by_cases hs : 0 < step
  · simp only [hs, if_true]
    rcases Nat.eq_zero_or_pos size with h0 | hpos
    · subst h0; simp
    · have hlt : start < start + (size : Int) * step := by
        have : 0 < (size : Int) * step := Int.mul_pos (by exact_mod_cast hpos) hs
        omega
      have e : start + (size : Int) * step - start - 1 = (size : Int) * step - 1 := by ring
      simp only [hlt, if_true, e, ediv_pred _ _ hs]
      omega
  · have hneg : step < 0 := by omega
    simp only [hs, if_false]
    rcases Nat.eq_zero_or_pos size with h0 | hpos
    · subst h0; simp
    · have hlt : start + (size : Int) * step < start := by
        have : (size : Int) * step < 0 := Int.mul_neg_of_pos_of_neg (by exact_mod_cast hpos) hneg
        omega
      have e : start - (start + (size : Int) * step) - 1 = (size : Int) * (-step) - 1 := by ring
      simp only [hlt, if_true, e, ediv_pred _ _ (by omega : 0 < -step)]
      omega

/-- the formula the code had before repair (`stop = start + size·step + 1`) regenerates one label too few for
    `RangeIndex(10, 6, -1)`: 3 labels for 4 rows — pandas then refuses the index (`Length mismatch`) -/
theorem old_stop_formula_short : min 4 (rangeLen 10 (10 + 4 * (-1) + 1) (-1)) = 3 := by decide

example : rangeLen 5 13 2 = 4 ∧ rangeLen 10 6 (-1) = 4 ∧ rangeLen 0 (-12) (-3) = 4 ∧ rangeLen 3 3 1 = 0 := by decide

end rangeIndex

section readBack
open PqV.Impl

/-- **write → read at page level, through the models of BOTH real routines**: `Impl.writerPageBody` is the model of what
    `write_column` lays down (tied byte for byte by the `wpage.chunk` stream), `Impl.readDataPage` + `placePage` the
    model of `core.read_data_page` and of `read_col`'s placement (tied by the `rpage.v1` stream, which runs the real
    function on every v1 page the run writes).  For ANY column spec with v1 pages (physical type, REQUIRED / OPTIONAL,
    PLAIN or dictionary with 1-, 2-, 4-byte signed codes) and ANY cells the type can hold — any number of rows incl. 0,
    any null pattern — the reader returns exactly the cells (for a categorical column the category each code names):
    through `read_def`, through the `skip_definition_bytes` shortcut when the chunk statistics say "no null"
    (`skip = true`; the shortcut's constants are REGENERATED from core.py and the block layout from writer.py), through
    `read_plain`, and through the byte-exact `np.frombuffer` shortcut for fastparquet's own dictionary codes. -/
theorem read_back_written_page (c : ColSpec) (hv : c.v2 = false) (hpt : c.ptype ≤ 7) (cats cells : List Cell)
    (hok : PageOk c cats.length cells) (skip : Bool) (hskip : skip = true → ∀ v ∈ cells, v ≠ Cell.null)
    (hitem : ∀ item, c.dictItem = some item →
      (item = 1 ∨ item = 2 ∨ item = 4) ∧ ∀ v ∈ nonNull cells, cellNat v < 2 ^ (item * 8 - 1)) :
    (readDataPage (!c.hasNulls) (leafOf c).maxDef c.ptype c.typeLength (encOf c) cells.length skip true
        (writerPageBody c cells)).bind (placePage (leafOf c).maxDef (dictOf c cats))
      = some (cells.map (render c cats)) :=
  Impl.read_back_written_page c hv hpt cats cells hok skip hskip hitem

/-- **when the reader steps over the level block, as the code has it now** (REGENERATED from `core.read_col` /
    `read_data_page`): `skip_nulls` is set only for a fastparquet-written chunk whose statistics record `null_count == 0`, and
    it is used only for a column that is not REQUIRED; the byte-exact code path is taken only for 8/16/32-bit indices of a
    fastparquet-written file.  These are the hypotheses `skip = true → no null` and `selfmade` of `read_back_written_page`
    (the writer records the exact null count: C04 `null_count_exact`). -/
theorem read_guards_now :
    PqV.Gen.ReadGuards.skipGuard = ["selfmade", "hasattr(cmd, 'statistics')", "getattr(cmd.statistics, 'null_count', 1) == 0"] ∧
    PqV.Gen.ReadGuards.skipUse = ["skip_nulls and (not helper.is_required(metadata.path_in_schema))"] ∧
    PqV.Gen.ReadGuards.codeFastPath = ["bit_width in [8, 16, 32] and selfmade"] := by decide

/-- **… and at column-chunk level**: whatever way the rows are cut into pages, reading the pages in order and
    concatenating what is placed gives the column. -/
theorem read_back_written_column (c : ColSpec) (hv : c.v2 = false) (hpt : c.ptype ≤ 7) (cats : List Cell) (pages : List (List Cell))
    (hok : ∀ p ∈ pages, PageOk c cats.length p) (skip : Bool) (hskip : skip = true → ∀ p ∈ pages, ∀ v ∈ p, v ≠ Cell.null)
    (hitem : ∀ item, c.dictItem = some item →
      (item = 1 ∨ item = 2 ∨ item = 4) ∧ ∀ p ∈ pages, ∀ v ∈ nonNull p, cellNat v < 2 ^ (item * 8 - 1)) :
    (pages.mapM fun cells =>
        (readDataPage (!c.hasNulls) (leafOf c).maxDef c.ptype c.typeLength (encOf c) cells.length skip true
          (writerPageBody c cells)).bind (placePage (leafOf c).maxDef (dictOf c cats))).map List.flatten
      = some (pages.flatten.map (render c cats)) := by
  induction pages with
  | nil => simp
  | cons p ps ih =>
    have h1 := Impl.read_back_written_page c hv hpt cats p (hok p List.mem_cons_self) skip
      (fun h => hskip h p List.mem_cons_self)
      (fun item hi => ⟨(hitem item hi).1, (hitem item hi).2 p List.mem_cons_self⟩)
    have ih' := ih (fun q hq => hok q (List.mem_cons_of_mem _ hq)) (fun h q hq => hskip h q (List.mem_cons_of_mem _ hq))
      (fun item hi => ⟨(hitem item hi).1, fun q hq => (hitem item hi).2 q (List.mem_cons_of_mem _ hq)⟩)
    rw [List.mapM_cons, h1]
    cases hm : (ps.mapM fun cells =>
        (readDataPage (!c.hasNulls) (leafOf c).maxDef c.ptype c.typeLength (encOf c) cells.length skip true
          (writerPageBody c cells)).bind (placePage (leafOf c).maxDef (dictOf c cats))) with
    | none => rw [hm] at ih'; simp at ih'
    | some rest =>
      rw [hm] at ih'
      simp only [Option.map_some, Option.some.injEq] at ih'
      simp [ih']

/-- **write → read of a whole chunk with the reader's shortcut decided by the writer's own statistics**: `read_col` steps over
    the level blocks of a fastparquet-written chunk exactly when its recorded `null_count` is 0 (`read_guards_now`), and the
    writer records the sum of the per-page tallies (`writerNullCount`; compared with the real footer on every chunk by the
    `wpage.chunk` stream, and exact by C04 `null_count_exact`).  With that — no hypothesis about the shortcut left — reading the
    pages in order and concatenating what is placed gives the column, however the rows are cut into pages. -/
theorem read_back_written_chunk_by_statistics (c : ColSpec) (hv : c.v2 = false) (hpt : c.ptype ≤ 7) (cats : List Cell)
    (pages : List (List Cell)) (hok : ∀ p ∈ pages, PageOk c cats.length p)
    (hitem : ∀ item, c.dictItem = some item →
      (item = 1 ∨ item = 2 ∨ item = 4) ∧ ∀ p ∈ pages, ∀ v ∈ nonNull p, cellNat v < 2 ^ (item * 8 - 1)) :
    (pages.mapM fun cells =>
        (readDataPage (!c.hasNulls) (leafOf c).maxDef c.ptype c.typeLength (encOf c) cells.length
          (decide (writerNullCount pages = 0)) true
          (writerPageBody c cells)).bind (placePage (leafOf c).maxDef (dictOf c cats))).map List.flatten
      = some (pages.flatten.map (render c cats)) :=
  read_back_written_column c hv hpt cats pages hok (decide (writerNullCount pages = 0))
    (fun h => no_null_of_count_zero pages (by simpa using h)) hitem

/-! non-vacuity: an OPTIONAL INT32 page with a null read through `read_def`; a null-free one through the shortcut -/
example : (readDataPage false 1 PT_INT32 0 ENC_PLAIN 3 false true
      (writerPageBody { ptype := PT_INT32, hasNulls := true, v2 := false } [Cell.int 7, Cell.null, Cell.int 9])).bind
        (placePage 1 none) = some [Cell.int 7, Cell.null, Cell.int 9] := by decide +kernel
example : (readDataPage false 1 PT_INT32 0 ENC_PLAIN 2 true true
      (writerPageBody { ptype := PT_INT32, hasNulls := true, v2 := false } [Cell.int 7, Cell.int 9])).bind
        (placePage 1 none) = some [Cell.int 7, Cell.int 9] := by decide +kernel

end readBack

end PqV.Props.C01
