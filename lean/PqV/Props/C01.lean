import PqV.Spec.File
namespace PqV.Props.C01
theorem placeholder_true : True := trivial
end PqV.Props.C01
