import PqV.Lemmas.Varint
import PqV.Lemmas.Bits
import PqV.Lemmas.KVarint
import PqV.Lemmas.KZigzag
import PqV.Lemmas.KHybrid
import PqV.Lemmas.KDelta
import PqV.Lemmas.KPlain
import PqV.Lemmas.KDeltaLoop
import PqV.Lemmas.KEncode
/-!
# C11 — primitive codecs agree with the specification on their whole bounded domain

Property theorems only (helper lemmas live in `PqV/Lemmas`).  `Spec.*` is the Parquet format
specification, `Impl.*` the code-shaped models of `cencoding.pyx` tied to the compiled extension
by the `kern.*` correspondence streams (harness/c11.py).
-/
namespace PqV.Props.C11
open PqV.Spec PqV.Impl

/-- Specification-level varint round trip, any value, any trailing bytes. -/
theorem spec_uvarint_rt (x : Nat) (rest : List Nat) :
    uvarintDec (uvarintEnc x ++ rest) = some (x, rest) := uvarint_rt x rest

/-- Every varint byte is a byte. -/
theorem spec_uvarint_bytes (x : Nat) : ∀ b ∈ uvarintEnc x, b < 256 := uvarintEnc_bytes x

/-- All varint lengths 1..10: a value below 2^(7k) takes at most k bytes; uint64 needs ≤ 10. -/
theorem spec_uvarint_len (x : Nat) (h : x < 2 ^ 64) : uvarintLen x ≤ 10 :=
  uvarintLen_le 10 (by decide) x (Nat.lt_of_lt_of_le h (by decide))

/-- `encode_unsigned_varint` (cencoding.pyx 286-290) emits exactly the ULEB128 bytes. -/
theorem encodeUvarint_refines (x : Nat) (h : x < 2 ^ 64) : encodeUvarint x = uvarintEnc x :=
  encodeUvarint_eq x h

/-- `read_unsigned_var_int` (172-189) decodes every uint64 varint at any buffer position,
    consumes exactly its bytes, never faults (no out-of-range shift, no read past the varint). -/
theorem readUvarint_refines (x : Nat) (hx : x < 2 ^ 64) (pre rest : List Nat) :
    readUvarint (pre ++ uvarintEnc x ++ rest) pre.length = .ok (x, pre.length + uvarintLen x) :=
  readUvarint_enc x hx pre rest

/-- decoder ∘ encoder = id for the code-shaped pair. -/
theorem uvarint_kernel_rt (x : Nat) (hx : x < 2 ^ 64) (pre rest : List Nat) :
    readUvarint (pre ++ encodeUvarint x ++ rest) pre.length = .ok (x, pre.length + uvarintLen x) := by
  rw [encodeUvarint_eq x hx]; exact readUvarint_enc x hx pre rest

theorem spec_zigzag_rt (n : Int) : zigzagDec (zigzagEnc n) = n := zigzag_rt n
theorem spec_zigzag_rt' (u : Nat) : zigzagEnc (zigzagDec u) = u := zigzag_rt' u

/-- `zigzag_long` (515-516) is the specification's zigzag decode on every uint64. -/
theorem zigzagLong_refines (u : Nat) (h : u < 2 ^ 64) : zigzagLong u = zigzagDec u := zigzagLong_eq u h

/-- `long_zigzag` (519-520) is the specification's zigzag encode on every int64. -/
theorem longZigzag_refines (n : Int) (h1 : -(2 ^ 63 : Int) ≤ n) (h2 : n < (2 ^ 63 : Int)) :
    longZigzag n = zigzagEnc n := longZigzag_eq n h1 h2

theorem zigzag_kernel_roundtrip (n : Int) (h1 : -(2 ^ 63 : Int) ≤ n) (h2 : n < (2 ^ 63 : Int)) :
    zigzagLong (longZigzag n) = n := zigzag_kernel_rt n h1 h2

/-- Bit-packing round trip of the specification: every width, every count. -/
theorem spec_bitpack_rt (w : Nat) (vs : List Nat) (h : ∀ v ∈ vs, v < 2 ^ w) :
    unpackLE w vs.length (packLE w vs) = vs := unpackLE_packLE w vs h

theorem spec_bitpack_len (w : Nat) (vs : List Nat) : (packLE w vs).length = (vs.length * w + 7) / 8 :=
  packLE_length w vs

/-- A decoder asked for `n` values yields exactly `n`. -/
theorem spec_unpack_count (w n : Nat) (bs : List Nat) : (unpackLE w n bs).length = n := by
  simp [unpackLE, unpackNat]

/-- **`read_bitpacked` (129-169) refines the specification for EVERY bit width up to 24**, any number of
    groups, any buffer position, 32-bit items: it stores the first `groups*8` values of the LSB-first bit
    stream (as many as fit the output), consumes exactly the run's bytes (at least one: the first load is
    unconditional) and never faults.  Widths 25..32 are the known finding (witnesses in Props/C03). -/
theorem readBitpacked_refines (buf : List Nat) (hbytes : ∀ b ∈ buf, b < 256) (ip0 header w : Nat) (o : Out) (hw : w ≤ 24)
    (h0 : ip0 < buf.length) (hbuf : ip0 + (header / 2 * 8 * w + 7) / 8 ≤ buf.length) :
    readBitpacked buf ip0 header w o 4
      = .ok ({ items := o.items ++ (List.range (min (header / 2 * 8) (o.cap / 4))).map (fun i => bitField w i (streamOf buf ip0)),
               cap := o.cap - (min (header / 2 * 8) (o.cap / 4)) * 4 },
             ip0 + max 1 ((header / 2 * 8 * w + 7) / 8)) :=
  readBitpacked_ok buf hbytes ip0 header w o hw h0 hbuf

/-- … and those values are the specification's `unpackLE` of the run's own bytes. -/
theorem readBitpacked_values (buf : List Nat) (ip0 w n m : Nat) (hm : ip0 + m ≤ buf.length) (hnm : n * w ≤ 8 * m) :
    (List.range n).map (fun i => bitField w i (streamOf buf ip0)) = unpackLE w n ((buf.drop ip0).take m) :=
  stream_values_eq_unpackLE buf ip0 w n m hm hnm

/-- **`read_rle` (24-52)** on a run written by any conforming encoder (width ≤ 32): the repeated value,
    clipped to the room left in the output. -/
theorem readRle_refines (p tail : List Nat) (hp : ∀ b ∈ p, b < 256) (ht : ∀ b ∈ tail, b < 256) (w c v header : Nat) (o : Out)
    (hw : w ≤ 32) (hv : v < 2 ^ w) (hh : header / 2 = c) :
    readRle (p ++ leBytes ((w + 7) / 8) v ++ tail) p.length header w o 4
      = .ok ({ items := o.items ++ List.replicate (min c (o.cap / 4)) v, cap := o.cap - (min c (o.cap / 4)) * 4 },
             p.length + (w + 7) / 8) :=
  readRle_run p tail hp ht w c v header o hw hv hh

/-- **`read_rle_bit_packed_hybrid` (192-213) equals the specification decoder** on every well-formed
    stream of runs — any mixture of RLE and bit-packed runs, any run lengths — for widths 1..24. -/
theorem readHybrid_refines (w : Nat) (hw1 : 1 ≤ w) (hw : w ≤ 24) (rs : List Run) (pre post : List Nat) (n : Nat)
    (hok : ∀ r ∈ rs, r.wf w = true ∧ RunOk r) (hpre : ∀ b ∈ pre, b < 256) (hpost : ∀ b ∈ post, b < 256)
    (hn : n ≤ (rs.flatMap Run.values).length) :
    ∃ o' loc', readHybrid (pre ++ encodeRuns w rs ++ post) pre.length w (encodeRuns w rs).length { items := [], cap := 4 * n } 4
        = .ok (o', loc') ∧ o'.items = decodeHybrid w n (encodeRuns w rs ++ post) :=
  readHybrid_eq_spec w hw1 hw rs pre post n hok hpre hpost hn

/-- **`delta_read_bitpacked` (216-237) refines the specification for every miniblock width 1..28**, any
    count, any position: the values of the LSB-first bit stream, exactly `⌈count·w/8⌉` bytes consumed,
    no fault.  Widths ≥ 29 are the known finding (witness `delta_bitpacked_29_faults` in Props/C03). -/
theorem deltaReadBitpacked_refines (buf : List Nat) (hbytes : ∀ b ∈ buf, b < 256) (loc0 w n : Nat) (hw1 : 1 ≤ w) (hw : w ≤ 28)
    (hbuf : loc0 + (n * w + 7) / 8 ≤ buf.length) :
    deltaReadBitpacked buf loc0 w n
      = .ok ((List.range n).map (fun i => bitField w i (streamOf buf loc0)), loc0 + (n * w + 7) / 8) :=
  deltaReadBitpacked_ok buf hbytes loc0 w n hw1 hw hbuf

/-- **`read_bitpacked1` (PLAIN booleans, width-1 levels) = specification**: with room for `count`
    items and the `⌈count/8⌉` bytes present, exactly the first `count` bits of the stream are appended -/
theorem readBitpacked1_refines (buf : List Nat) (hbytes : ∀ b ∈ buf, b < 256) (ip count : Nat) (o : Out)
    (hcap : count ≤ o.cap) (hlen : ip + (count + 7) / 8 ≤ buf.length) :
    readBitpacked1 buf ip count o
      = .ok ({ items := o.items ++ unpackNat 1 count (streamOf buf ip), cap := o.cap - count }, ip + (count + 7) / 8) :=
  PqV.Impl.readBitpacked1_refines buf hbytes ip count o hcap hlen

/-- `read_plain_boolean` inverts the specification's boolean packing, whatever follows in the page -/
theorem readPlainBoolean_roundtrip (bits tail : List Nat) (hb : ∀ v ∈ bits, v < 2) (ht : ∀ b ∈ tail, b < 256) :
    readPlainBoolean (packLE 1 bits ++ tail) bits.length = .ok bits :=
  PqV.Impl.readPlainBoolean_roundtrip bits tail hb ht

/-- `unpack_byte_array` inverts `pack_byte_array` (PLAIN BYTE_ARRAY) at any buffer position, for
    any number of items shorter than 2^31 bytes each -/
theorem unpackByteArray_roundtrip (items : List (List Nat)) (hl : ∀ it ∈ items, it.length < 2 ^ 31) (pre tail : List Nat) :
    unpackByteArray (pre ++ packByteArray items ++ tail) pre.length items.length = .ok items :=
  PqV.Impl.unpackByteArray_roundtrip items hl pre tail

/-- the writer's boolean packing (`convert`: pad, reshape(-1, 8)[:, ::-1], packbits) is the
    specification's bit packing of the padded values -/
theorem writerPackBools_is_spec (vals : List Nat) (hb : ∀ v ∈ vals, v < 2) :
    writerPackBools vals = packLE 1 (vals ++ List.replicate (8 - vals.length % 8) 0) :=
  writerPackBools_eq vals hb

/-- **`delta_binary_unpack` (240-283) = `Spec.decodeDelta`** on every stream a conforming writer can
    emit with miniblock bit widths ≤ 28: any block size and miniblock count (values per miniblock a
    multiple of 8, as the format demands), any mixture of widths including 0, INT32 and INT64, any
    count covered by the blocks, at any buffer position, whatever follows the stream.  The kernel
    (header parse, block loop, in-place unpack-then-accumulate j-loops, 64-bit wrapping sums stored at
    item width, early exit) does not fault and its output array holds exactly the specification's
    values.  `encStreamP` is the byte form header ++ blocks, `BlockOk` says each block has `mpb`
    miniblocks of `vpm` deltas below 2^width.  Widths ≥ 29 are the known finding; a count that is
    ≡ 1 modulo the block size makes the kernel read a block header behind the stream (known finding
    C12 delta over-read) and is excluded by `hroom` only when the stream ends there. -/
theorem deltaBinaryUnpack_refines (pre post : List Nat) (longval : Bool) (blockSize mpb cnt : Nat) (first : Int) (blocks : List Block)
    (hbs : blockSize < 2 ^ 64) (hmpb64 : mpb < 2 ^ 64) (hfirst : okI64 first)
    (hmpb : 1 ≤ mpb) (hvpm : 1 ≤ blockSize / mpb) (h8 : blockSize / mpb % 8 = 0) (hcnt1 : 1 ≤ cnt) (hcnt : cnt < 2 ^ 63)
    (hblocks : ∀ b ∈ blocks, BlockOk (blockSize / mpb) mpb b)
    (hroom : cnt ≤ blockSize / mpb * mpb * blocks.length)
    (hbytes : ∀ b ∈ pre ++ encStreamP blockSize mpb cnt first blocks ++ post, b < 256) :
    ∃ vals rest slots loc',
      decodeDelta (if longval then 64 else 32) (encStreamP blockSize mpb cnt first blocks ++ post) = some (vals, rest) ∧
      deltaBinaryUnpack (pre ++ encStreamP blockSize mpb cnt first blocks ++ post) pre.length cnt longval = .ok (slots, loc') ∧
      slots.toList = vals.map (ofSigned (if longval then 64 else 32)) :=
  deltaKernel_eq_spec pre post longval blockSize mpb cnt first blocks hbs hmpb64 hfirst hmpb hvpm h8 hcnt1 hcnt hblocks hroom hbytes

/-- **`width_from_max_int` (55-61)** = the specification's level / index width for every maximum below 2^63 -/
theorem widthFromMaxInt_refines (n : Nat) (h : n < 2 ^ 63) : widthFromMaxInt (n : Int) = widthFor n :=
  widthFromMaxInt_eq n h

/-- **`encode_bitpacked` (293-310) refines the specification's packing** on its whole bounded domain: every width
    0..24 (the `int32` accumulator holds at most 7 pending bits plus one value), any number (< 2^31) of values that fit
    the width.  Output = run header announcing `⌈n/8⌉` groups ++ `packLE w vals` (exactly `⌈n·w/8⌉` bytes: the last group
    is not padded), no fault.  Loop invariant over (`bit`, `bits`, bytes drained) in `Lemmas/KEncode`. -/
theorem encodeBitpacked_refines (w : Nat) (hw : w ≤ 24) (vals : List Nat) (hv : ∀ v ∈ vals, v < 2 ^ w) (hn : vals.length < 2 ^ 31) :
    encodeBitpacked vals w = .ok (uvarintEnc ((vals.length + 7) / 8 * 2 + 1) ++ packLE w vals) :=
  encodeBitpacked_eq w hw vals hv hn

/-- what `encode_bitpacked` writes is read back by the specification whatever follows it: the header announces `⌈n/8⌉`
    groups and the first `n` values of the payload are the input -/
theorem encodeBitpacked_decodes (w : Nat) (hw : w ≤ 24) (vals tail : List Nat) (hv : ∀ v ∈ vals, v < 2 ^ w) (hn : vals.length < 2 ^ 31) :
    ∃ out payload, encodeBitpacked vals w = .ok out ∧
      uvarintDec (out ++ tail) = some ((vals.length + 7) / 8 * 2 + 1, payload) ∧ unpackLE w vals.length payload = vals :=
  PqV.Impl.encodeBitpacked_decodes w hw vals tail hv hn

/-- for whole groups of 8 the kernel's output IS the specification's bit-packed run and the hybrid decoder returns the input -/
theorem encodeBitpacked_whole_groups (w : Nat) (hw : w ≤ 24) (vals tail : List Nat) (hv : ∀ v ∈ vals, v < 2 ^ w) (hn : vals.length < 2 ^ 31)
    (h8 : vals.length % 8 = 0) :
    encodeBitpacked vals w = .ok (encodeRun w (.bp vals)) ∧ decodeHybrid w vals.length (encodeRun w (.bp vals) ++ tail) = vals :=
  PqV.Impl.encodeBitpacked_whole_groups w hw vals tail hv hn h8

-- witnesses: the hypotheses are met by a run of 8 three-bit values; at width 25 the accumulator overflows (the model loses bits)
example : encodeBitpacked [1, 2, 3, 4, 5, 6, 7, 0] 3 = .ok (encodeRun 3 (.bp [1, 2, 3, 4, 5, 6, 7, 0])) := by decide +kernel

-- a stream meeting the hypotheses: block size 8, one miniblock per block, widths 3 and 0, five values
example : BlockOk 8 1 ((-1 : Int), [((3 : Nat), [5, 0, 7, 1, 0, 0, 0, 0])]) :=
  ⟨by unfold okI64; constructor <;> norm_num, rfl, by
    intro m hm
    simp only [List.mem_singleton] at hm
    subst hm
    exact ⟨by norm_num, rfl, (by intro h; cases h), (by decide)⟩⟩

-- non-vacuity: concrete instances of the hypotheses
example : unpackByteArray ([9] ++ packByteArray [[1, 2], [], [7]] ++ [0]) 1 3 = .ok [[1, 2], [], [7]] := by decide
example : readPlainBoolean (packLE 1 [1, 0, 1, 1, 0, 0, 0, 1, 1] ++ [255]) 9 = .ok [1, 0, 1, 1, 0, 0, 0, 1, 1] := by decide +kernel
example : ∀ r ∈ [Run.rle 3 5, Run.bp [1, 2, 3, 4, 5, 6, 7, 0]], r.wf 3 = true ∧ RunOk r := by
  intro r hr
  simp only [List.mem_cons, List.mem_nil_iff, or_false] at hr
  rcases hr with rfl | rfl
  · exact ⟨by decide, by simp [RunOk]⟩
  · exact ⟨by decide, by simp [RunOk]⟩
example : (300 : Nat) < 2 ^ 64 := by decide
example : ∀ v ∈ [5, 0, 7, 3], v < 2 ^ 3 := by decide
example : unpackLE 3 4 (packLE 3 [5, 0, 7, 3]) = [5, 0, 7, 3] := by decide

end PqV.Props.C11
