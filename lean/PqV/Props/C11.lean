import PqV.Lemmas.Varint
import PqV.Lemmas.Bits
import PqV.Lemmas.KVarint
import PqV.Lemmas.KZigzag
/-!
# C11 — primitive codecs agree with the specification on their whole bounded domain

Property theorems only (helper lemmas live in `PqV/Lemmas`).  `Spec.*` is the Parquet format
specification, `Impl.*` the code-shaped models of `cencoding.pyx` tied to the compiled extension
by the `kern.*` correspondence streams (harness/c11.py).
-/
namespace PqV.Props.C11
open PqV.Spec PqV.Impl

/-- Specification-level varint round trip, any value, any trailing bytes. -/
theorem spec_uvarint_rt (x : Nat) (rest : List Nat) :
    uvarintDec (uvarintEnc x ++ rest) = some (x, rest) := uvarint_rt x rest

/-- Every varint byte is a byte. -/
theorem spec_uvarint_bytes (x : Nat) : ∀ b ∈ uvarintEnc x, b < 256 := uvarintEnc_bytes x

/-- All varint lengths 1..10: a value below 2^(7k) takes at most k bytes; uint64 needs ≤ 10. -/
theorem spec_uvarint_len (x : Nat) (h : x < 2 ^ 64) : uvarintLen x ≤ 10 :=
  uvarintLen_le 10 (by decide) x (Nat.lt_of_lt_of_le h (by decide))

/-- `encode_unsigned_varint` (cencoding.pyx 286-290) emits exactly the ULEB128 bytes. -/
theorem encodeUvarint_refines (x : Nat) (h : x < 2 ^ 64) : encodeUvarint x = uvarintEnc x :=
  encodeUvarint_eq x h

/-- `read_unsigned_var_int` (172-189) decodes every uint64 varint at any buffer position,
    consumes exactly its bytes, never faults (no out-of-range shift, no read past the varint). -/
theorem readUvarint_refines (x : Nat) (hx : x < 2 ^ 64) (pre rest : List Nat) :
    readUvarint (pre ++ uvarintEnc x ++ rest) pre.length = .ok (x, pre.length + uvarintLen x) :=
  readUvarint_enc x hx pre rest

/-- decoder ∘ encoder = id for the code-shaped pair. -/
theorem uvarint_kernel_rt (x : Nat) (hx : x < 2 ^ 64) (pre rest : List Nat) :
    readUvarint (pre ++ encodeUvarint x ++ rest) pre.length = .ok (x, pre.length + uvarintLen x) := by
  rw [encodeUvarint_eq x hx]; exact readUvarint_enc x hx pre rest

theorem spec_zigzag_rt (n : Int) : zigzagDec (zigzagEnc n) = n := zigzag_rt n
theorem spec_zigzag_rt' (u : Nat) : zigzagEnc (zigzagDec u) = u := zigzag_rt' u

/-- `zigzag_long` (515-516) is the specification's zigzag decode on every uint64. -/
theorem zigzagLong_refines (u : Nat) (h : u < 2 ^ 64) : zigzagLong u = zigzagDec u := zigzagLong_eq u h

/-- `long_zigzag` (519-520) is the specification's zigzag encode on every int64. -/
theorem longZigzag_refines (n : Int) (h1 : -(2 ^ 63 : Int) ≤ n) (h2 : n < (2 ^ 63 : Int)) :
    longZigzag n = zigzagEnc n := longZigzag_eq n h1 h2

theorem zigzag_kernel_roundtrip (n : Int) (h1 : -(2 ^ 63 : Int) ≤ n) (h2 : n < (2 ^ 63 : Int)) :
    zigzagLong (longZigzag n) = n := zigzag_kernel_rt n h1 h2

/-- Bit-packing round trip of the specification: every width, every count. -/
theorem spec_bitpack_rt (w : Nat) (vs : List Nat) (h : ∀ v ∈ vs, v < 2 ^ w) :
    unpackLE w vs.length (packLE w vs) = vs := unpackLE_packLE w vs h

theorem spec_bitpack_len (w : Nat) (vs : List Nat) : (packLE w vs).length = (vs.length * w + 7) / 8 :=
  packLE_length w vs

/-- A decoder asked for `n` values yields exactly `n`. -/
theorem spec_unpack_count (w n : Nat) (bs : List Nat) : (unpackLE w n bs).length = n := by
  simp [unpackLE, unpackNat]

-- non-vacuity: concrete instances of the hypotheses
example : (300 : Nat) < 2 ^ 64 := by decide
example : ∀ v ∈ [5, 0, 7, 3], v < 2 ^ 3 := by decide
example : unpackLE 3 4 (packLE 3 [5, 0, 7, 3]) = [5, 0, 7, 3] := by decide

end PqV.Props.C11
