import PqV.Lemmas.Page
import PqV.Lemmas.KHybrid
import PqV.Lemmas.Delta
import PqV.Lemmas.KDeltaLoop
/-!
# C03 — valid flat Parquet files from any writer decode to exactly what they encode

`Spec.*` is the format specification (the reader `Spec.File` built from these pieces certifies every
file the harness feeds to fastparquet, see harness/c03.py).  The theorems below establish, for ALL
inputs, that this specification decoder inverts every choice a conforming writer has — any index
width, any mixture of RLE and bit-packed runs, any run lengths, any page split, any null pattern —
so "what the file encodes" is well defined and is what the certified oracle computes.  The last
block gives model-level witnesses for the two kernel defects recorded as known findings.
-/
namespace PqV.Props.C03
open PqV.Spec PqV.Impl

/-- **any mixture of runs, any width**: a hybrid stream made of arbitrary well-formed RLE and
    bit-packed runs (followed by anything) decodes to the first `n` values it stands for. -/
theorem hybrid_any_runs (w n : Nat) (rs : List Run) (tail : List Nat)
    (hwf : ∀ r ∈ rs, r.wf w = true) (hn : n ≤ (rs.flatMap Run.values).length) :
    decodeHybrid w n (encodeRuns w rs ++ tail) = (rs.flatMap Run.values).take n :=
  decodeHybrid_encodeRuns w n rs tail hwf hn

/-- **dictionary indices**: width byte + any run mixture at that width (0..255) → the indices -/
theorem dict_indices_any_runs (w n : Nat) (rs : List Run) (tail : List Nat)
    (hwf : ∀ r ∈ rs, r.wf w = true) (hn : n ≤ (rs.flatMap Run.values).length) :
    dictIndices n (w :: (encodeRuns w rs ++ tail)) = some ((rs.flatMap Run.values).take n) :=
  dictIndices_runs w n rs tail hwf hn

/-- **dictionary look-up** is total on in-range indices and is the plain map -/
theorem dict_lookup_total (d : List Cell) (ix : List Nat) (h : ∀ i ∈ ix, i < d.length) :
    ix.mapM (fun i => d[i]?) = some (ix.map fun i => d.getD i Cell.null) := dict_lookup d ix h

/-- **one row per definition level** -/
theorem cells_per_level (m : Nat) (defs : List Nat) (vals : List Cell) :
    (scatter m defs vals).length = defs.length := scatter_length m defs vals

/-- **page boundaries at arbitrary rows do not matter**: decoding two pages one after the other
    gives the same column as decoding their concatenation (this is also why dictionary fallback to
    PLAIN within a chunk is just another page) -/
theorem page_split_independent (m : Nat) (d1 d2 : List Nat) (v1 v2 : List Cell)
    (h : v1.length = countMax m d1) :
    scatter m (d1 ++ d2) (v1 ++ v2) = scatter m d1 v1 ++ scatter m d2 v2 := scatter_append m d1 d2 v1 v2 h

/-- **values come back in order** and **nulls are exactly the levels below the maximum** -/
theorem values_in_order (m : Nat) (defs : List Nat) (vals : List Cell)
    (h : vals.length = countMax m defs) (hnn : ∀ v ∈ vals, v ≠ Cell.null) :
    (scatter m defs vals).filter (fun c => decide (c ≠ Cell.null)) = vals := scatter_filter m defs vals h hnn

theorem null_iff_below_max (m : Nat) (defs : List Nat) (vals : List Cell)
    (h : vals.length = countMax m defs) (hnn : ∀ v ∈ vals, v ≠ Cell.null) (i : Nat) (hi : i < defs.length) :
    ((scatter m defs vals)[i]'(by rw [scatter_length]; exact hi) = Cell.null) ↔ defs[i] ≠ m :=
  scatter_null_iff m defs vals h hnn i hi

/-- **the compiled reader's hybrid kernel on any index width 1..24 and any mixture of runs**: the
    code-shaped model of `read_rle_bit_packed_hybrid` (tied to the compiled extension by the C11
    correspondence) returns exactly what the specification decoder returns — so dictionary indices and
    definition/repetition levels written by ANY conforming writer at these widths decode right. -/
theorem kernel_hybrid_any_runs (w : Nat) (hw1 : 1 ≤ w) (hw : w ≤ 24) (rs : List Run) (pre post : List Nat) (n : Nat)
    (hok : ∀ r ∈ rs, r.wf w = true ∧ RunOk r) (hpre : ∀ b ∈ pre, b < 256) (hpost : ∀ b ∈ post, b < 256)
    (hn : n ≤ (rs.flatMap Run.values).length) :
    ∃ o' loc', readHybrid (pre ++ encodeRuns w rs ++ post) pre.length w (encodeRuns w rs).length { items := [], cap := 4 * n } 4
        = .ok (o', loc') ∧ o'.items = (rs.flatMap Run.values).take n := by
  obtain ⟨o', loc', h1, h2⟩ := readHybrid_eq_spec w hw1 hw rs pre post n hok hpre hpost hn
  exact ⟨o', loc', h1, by rw [h2, decodeHybrid_encodeRuns w n rs post (fun r hr => (hok r hr).1) hn]⟩

/-- **DELTA_BINARY_PACKED, any shape**: for every block size / miniblock count the format allows
    (whole miniblocks of a multiple of 8 values), every widening of the miniblock bit widths (0..64),
    every list of values of the column's width — any length, any number of blocks, partly filled last
    block and miniblock — the specification decoder returns the values and stops exactly behind them. -/
theorem delta_any_shape (bits : Nat) (hb : 1 ≤ bits) (sh : DeltaShape) (hs : ShapeOk sh) (vs : List Int)
    (hr : ∀ v ∈ vs, inRange bits v) (tail : List Nat) :
    decodeDelta bits (encodeDelta bits sh vs ++ tail) = some (vs, tail) :=
  decodeDelta_encodeDelta bits hb sh hs vs hr tail

example : ShapeOk { blockSize := 128, mpb := 4, extraWidth := 3 } := ⟨by decide, by decide, by decide, by decide⟩

/-! ### non-vacuity -/
example : ∀ r ∈ [Run.rle 3 5, Run.bp [1, 2, 3, 4, 5, 6, 7, 0], Run.rle 0 1], r.wf 3 = true := by decide
example : decodeHybrid 3 10 (encodeRuns 3 [Run.rle 3 5, Run.bp [1, 2, 3, 4, 5, 6, 7, 0], Run.rle 0 1] ++ [9, 9])
    = [5, 5, 5, 1, 2, 3, 4, 5, 6, 7] := by decide +kernel
example : scatter 1 [1, 0, 1] [Cell.int 7, Cell.int 8] = [Cell.int 7, Cell.null, Cell.int 8] := by decide

/-! ### model-level witnesses of the known kernel findings (C03-dict-index-wide, C03-delta-wide)
The code-shaped models of `read_bitpacked` / `delta_read_bitpacked` (tied to the compiled
extension by the C11 correspondence) hit an out-of-range shift — undefined behaviour in C, wrong
values or a crash in practice — on well-formed input at these widths. -/
def isOk {α} : K α → Bool
  | .ok _ => true
  | .error _ => false

def sample (w n : Nat) : List Nat := (List.range n).map fun i => (2 ^ w - 1 - i * 12345) % 2 ^ w

theorem bitpacked_26_faults :
    isOk (readBitpacked (packLE 26 (sample 26 8)) 0 3 26 { items := [], cap := 32 } 4) = false := by
  decide +kernel

theorem bitpacked_25_faults :
    isOk (readBitpacked (packLE 25 (sample 25 16)) 0 5 25 { items := [], cap := 64 } 4) = false := by
  decide +kernel

theorem bitpacked_24_ok :
    (match readBitpacked (packLE 24 (sample 24 16)) 0 5 24 { items := [], cap := 64 } 4 with
     | .ok (o, ip) => decide (o.items = sample 24 16 ∧ ip = 48)
     | .error _ => false) = true := by
  decide +kernel

theorem delta_bitpacked_29_faults :
    isOk (deltaReadBitpacked (packLE 29 (sample 29 8)) 0 29 8) = false := by
  decide +kernel

theorem delta_bitpacked_28_ok :
    (match deltaReadBitpacked (packLE 28 (sample 28 8)) 0 28 8 with
     | .ok (vs, loc) => decide (vs = sample 28 8 ∧ loc = 28)
     | .error _ => false) = true := by
  decide +kernel

/-- **DELTA_BINARY_PACKED pages from any writer, through the kernel**: the code-shaped model of
    `delta_binary_unpack` returns what the specification decoder returns on every conforming stream
    whose miniblock widths are ≤ 28 (INT32 and INT64, any block shape, any count the blocks cover, any
    position in the page buffer).  Together with `delta_any_shape` (specification round trip) this
    ties the kernel to the values a conforming writer encoded. -/
theorem kernel_delta_any_stream (pre post : List Nat) (longval : Bool) (blockSize mpb cnt : Nat) (first : Int) (blocks : List Block)
    (hbs : blockSize < 2 ^ 64) (hmpb64 : mpb < 2 ^ 64) (hfirst : okI64 first)
    (hmpb : 1 ≤ mpb) (hvpm : 1 ≤ blockSize / mpb) (h8 : blockSize / mpb % 8 = 0) (hcnt1 : 1 ≤ cnt) (hcnt : cnt < 2 ^ 63)
    (hblocks : ∀ b ∈ blocks, BlockOk (blockSize / mpb) mpb b)
    (hroom : cnt ≤ blockSize / mpb * mpb * blocks.length)
    (hbytes : ∀ b ∈ pre ++ encStreamP blockSize mpb cnt first blocks ++ post, b < 256) :
    ∃ vals rest slots loc',
      decodeDelta (if longval then 64 else 32) (encStreamP blockSize mpb cnt first blocks ++ post) = some (vals, rest) ∧
      deltaBinaryUnpack (pre ++ encStreamP blockSize mpb cnt first blocks ++ post) pre.length cnt longval = .ok (slots, loc') ∧
      slots.toList = vals.map (ofSigned (if longval then 64 else 32)) :=
  deltaKernel_eq_spec pre post longval blockSize mpb cnt first blocks hbs hmpb64 hfirst hmpb hvpm h8 hcnt1 hcnt hblocks hroom hbytes

end PqV.Props.C03
