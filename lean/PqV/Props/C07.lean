import PqV.Impl.Append
import PqV.Lemmas.Footer
import PqV.Lemmas.Dataset
import PqV.Lemmas.DatasetInv
import PqV.Props.C09
import PqV.Gen.PartNumbering
/-!
# C07 — append adds rows at the end and leaves existing data untouched
-/
namespace PqV.Props.C07
open PqV.Spec PqV.Impl.Footer PqV.Impl.Append PqV.Impl.Dataset

/-- Single file: every byte before the old footer (i.e. every existing row group) is unchanged,
    whatever is appended. -/
theorem append_prefix (f newRgs nf : List Nat) (h : footerLoc false f ≤ f.length) :
    (appendSimple f newRgs nf).take (footerLoc false f) = f.take (footerLoc false f) :=
  overlay_take _ _ _ h

/-- …and the result is `old row groups ++ new row groups ++ new footer ++ length ++ magic` exactly,
    as soon as the new tail is at least as long as the old footer + trailer (it always is: the new
    footer lists every old row group again). -/
theorem append_layout (f newRgs nf : List Nat)
    (hg : f.length ≤ footerLoc false f + (newRgs.length + nf.length + 8)) :
    appendSimple f newRgs nf
      = f.take (footerLoc false f) ++ (newRgs ++ nf ++ leBytes 4 nf.length ++ magic) := by
  unfold appendSimple
  apply overlay_covers
  simp [List.length_append, leBytes_length, magic_length]; omega

/-- Multi-file: new part files get numbers strictly above every referenced number … -/
theorem fresh_part_numbers (old : List RgRef) (nd : NewData) :
    ∀ r' ∈ newRefs (maxPart old) 0 nd, ∀ r ∈ old, r.id < r'.id := by
  intro r' hr' r hr
  have hlt := lt_maxPart old r hr
  suffices h : ∀ (nd : NewData) (i : Nat), ∀ r' ∈ newRefs (maxPart old) i nd, maxPart old ≤ r'.id by
    have := h nd 0 r' hr'; omega
  intro nd
  induction nd with
  | nil => intro i r' h; simp [newRefs] at h
  | cons pieces rest ih =>
    intro i r' h
    simp only [newRefs, List.mem_append, List.mem_map] at h
    rcases h with ⟨⟨d, rows⟩, _, rfl⟩ | h
    · simp
    · exact ih (i + 1) r' h

/-- … so no existing data file of a multi-file dataset is rewritten, truncated or renamed
    (no operation of the append targets one). -/
theorem multi_no_touch (partitioned : Bool) (old : List RgRef) (nd : NewData) :
    ∀ op ∈ appendOps partitioned old nd, ∀ r ∈ old, target op ≠ some (.part r.dir r.id) := by
  intro op hop r hr heq
  simp only [appendOps, List.mem_append] at hop
  rcases hop with hop | hop
  · obtain ⟨d, id, hp, hge⟩ := dataOps_targets partitioned (maxPart old) nd 0 op hop _ heq
    have := lt_maxPart old r hr
    injection hp with h1 h2; omega
  · simp only [metaOps, List.mem_cons, List.mem_nil_iff, or_false] at hop
    rcases hop with rfl | rfl | rfl | rfl | rfl | rfl <;> simp [target] at heq

/-- Categoricals: when every row group carries the same dictionary the read returns each row's
    own label. -/
theorem append_cats_partial (chunks : List CatChunk) (d : List String) (h : ∀ c ∈ chunks, c.dict = d) :
    readCats chunks = chunks.flatMap (·.labels) := by
  unfold readCats
  cases hl : chunks.getLast? with
  | none =>
    have : chunks = [] := by simpa using hl
    subst this; simp
  | some last =>
    have hmem : last ∈ chunks := List.mem_of_getLast? hl
    simp only [Option.map_some, Option.getD_some, h last hmem]
    induction chunks with
    | nil => simp
    | cons c cs ih =>
      simp only [List.flatMap_cons, List.map_append, CatChunk.labels, h c (List.mem_cons_self ..)]
      congr 1
      have hcs : ∀ c ∈ cs, c.dict = d := fun x hx => h x (List.mem_cons_of_mem _ hx)
      clear ih hl hmem
      induction cs with
      | nil => simp
      | cons c2 cs2 ih2 =>
        simp only [List.flatMap_cons, List.map_append, CatChunk.labels, hcs c2 (List.mem_cons_self ..)]
        congr 1
        exact ih2 (fun x hx => h x (by
          rcases List.mem_cons.mp hx with rfl | hx
          · exact List.mem_cons_self ..
          · exact List.mem_cons_of_mem _ (List.mem_cons_of_mem _ hx))) (fun x hx => hcs x (List.mem_cons_of_mem _ hx))

/-- The full statement ("every value intact, including categorical columns whose later batches
    carry different category sets") is FALSE of the reader as written: known finding. -/
theorem append_cats_fails :
    ∃ chunks : List CatChunk, readCats chunks ≠ chunks.flatMap (·.labels) :=
  ⟨[⟨["x", "y"], [0, 1, 0]⟩, ⟨["y", "x"], [0, 1, 0]⟩], by decide⟩

example : footerLoc false [9, 9, 1, 2, 3, 3, 0, 0, 0, 0x50, 0x41, 0x52, 0x31] ≤ 13 := by decide


section sequences
open PqV.Impl.DatasetOps

/-- **any sequence of appends to a multi-file dataset**: what is read afterwards is what was read
    before followed by every appended batch, piece by piece, in the order of the appends; the invariant
    (metadata and directory agree, no shared files) still holds; and every file that existed before the
    first append still holds exactly the rows it held. -/
theorem appends_concatenate (nds : List NewData) (hp : ∀ nd ∈ nds, PiecesOk nd) :
    ∀ (ds : DS), Inv ds →
      content (nds.foldl addNew ds) = content ds ++ nds.flatMap (fun nd => nd.flatMap id) ∧
      Inv (nds.foldl addNew ds) ∧
      ∀ r ∈ ds.refs, fget (nds.foldl addNew ds).files (key r) = some r.rows := by
  induction nds with
  | nil => intro ds h; exact ⟨by simp, h, h.refs_ok⟩
  | cons nd rest ih =>
    intro ds h
    have h1 := addNew_inv ds nd h (hp nd List.mem_cons_self)
    obtain ⟨a, b, c⟩ := ih (fun x hx => hp x (List.mem_cons_of_mem _ hx)) (addNew ds nd) h1
    refine ⟨?_, b, ?_⟩
    · simp only [List.foldl_cons, List.flatMap_cons]
      rw [a]
      have : content (addNew ds nd) = content ds ++ nd.flatMap id := by
        simp only [content, addNew, List.map_append]
        congr 1
        have := PqV.Props.C09.newRefs_content (maxPart ds.refs) nd 0
        simpa using this
      rw [this, List.append_assoc]
    · intro r hr
      simp only [List.foldl_cons]
      apply c
      simp only [addNew, List.mem_append]
      exact Or.inl hr

end sequences

/-- the source as it stands (REGENERATED from `writer.find_max_part` / `write_multi`): the first new
    part number of an append is one more than the highest number the metadata references (0 for an
    empty dataset), computed from the dataset's whole row-group list — the `maxPart` of the model -/
theorem part_numbering_now : PqV.Gen.PartNumbering.rule = "maxPlusOne" ∧
    PqV.Gen.PartNumbering.offsetAssignments = ["i_offset=0", "i_offset=find_max_part(fmd.row_groups)"] := by decide

end PqV.Props.C07
