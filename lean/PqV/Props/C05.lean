import PqV.Lemmas.Filter
import PqV.Lemmas.Prune
/-!
# C05 — filtered reads never lose a qualifying row (row-group pruning is sound)

`Gen.Filter` is REGENERATED from `fastparquet/api.py` (`filter_val`, `filter_in`, `filter_not_in`,
`_handle_np_array`) on every run, so these theorems are re-checked against what the code says now.
`sat` is the predicate semantics on a non-null scalar; `inBounds` says the cell lies within the
chunk's recorded min/max (each optional).  Soundness: whenever the interval test says "exclude",
no cell inside the bounds satisfies the condition.
-/
namespace PqV.Props.C05
open PqV.Py PqV.Gen.Filter PqV.Filter

/-- `filter_in` excludes a row group only if no listed value can occur within the bounds. -/
theorem filter_in_sound (vals : List Int) (vmin vmax : Option Int) (x : Int)
    (h : filter_in vals vmin vmax = .ok true) (hb : inBounds vmin vmax x) : vals.contains x = false :=
  PqV.Filter.filter_in_sound vals vmin vmax x h hb

/-- The interval test of every comparison operator and of `in` is sound for pruning. -/
theorem filter_val_sound (op : String) (val : Int) (vals : List Int) (vmin vmax : Option Int) (x : Int)
    (hop : op ∈ ["==", "=", "!=", "<", "<=", ">", ">=", "in"])
    (h : filter_val op val vals vmin vmax = .ok true) (hb : inBounds vmin vmax x) :
    sat op val vals x = false :=
  PqV.Filter.filter_val_sound op val vals vmin vmax x hop h hb

/-- **whole filter programs** (OR of AND groups; statistics and partition values together): the
    code-shaped pruning loop (`filter_out_stats`, `filter_out_cats`, `filter_row_groups`) never drops
    a row group that holds a row satisfying the filter — for every dataset, every statistics layout
    (old / new style fields, missing bounds, missing statistics), every program without `not in`. -/
theorem pruning_loop_sound (rgs : List PqV.Impl.Prune.RowGroup) (dnf : List (List PqV.Impl.Prune.Cond)) (hne : dnf ≠ [])
    (hops : ∀ g ∈ dnf, PqV.Impl.Prune.OpsOk g) (row : PqV.Impl.Prune.Row) (hsat : PqV.Impl.Prune.satDnf row dnf = true)
    (idxs : List Nat) (h : PqV.Impl.Prune.filterRowGroups rgs dnf = .ok idxs)
    (j : Nat) (rg : PqV.Impl.Prune.RowGroup) (hj : rgs[j]? = some rg) (hin : PqV.Impl.Prune.RowIn rg row) : j ∈ idxs :=
  PqV.Impl.Prune.filterRowGroups_sound rgs dnf hne hops row hsat idxs h j rg hj hin

/-- `not in` is sound when the chunk holds a single value (`vmin = vmax`). -/
theorem filter_not_in_sound_partial (vals : List Int) (v x : Int)
    (h : filter_not_in vals (some v) (some v) = .ok true) (hb : inBounds (some v) (some v) x) :
    (!vals.contains x) = false := by
  rcases hb with ⟨hmin, hmax⟩
  have h1 := hmin v rfl
  have h2 := hmax v rfl
  have hxv : x = v := by omega
  subst hxv
  by_cases hc : vals.contains x = true
  · simpa using hc
  · have hx : x ∉ vals := by simpa using hc
    by_cases hl : (vals.length : Int) = 0
    · simp [filter_not_in, pyIf, pyAnd, pyEq, pyIsNotNone, pyIn, toPy, hl] at h
    · simp [filter_not_in, pyIf, pyAnd, pyEq, pyIsNotNone, pyIn, toPy, hl, hx] at h

/-- Full-strength `not in` soundness is FALSE of the code as written (known finding C05-not-in,
    pinned by `test_api.py::test_in_filters`): a row group with bounds 5..10 is excluded for
    `not in [5]` although the cell 6 qualifies. -/
theorem filter_not_in_fails :
    ∃ (vals : List Int) (vmin vmax : Option Int) (x : Int),
      filter_val "not in" 0 vals vmin vmax = .ok true ∧ inBounds vmin vmax x ∧ sat "not in" 0 vals x = true := by
  refine ⟨[5], some 5, some 10, 6, by decide, ?_, by decide⟩
  constructor <;> intro m hm <;> injection hm with hm <;> omega

/-- The interval tests never raise on optional integer bounds (no comparison with `None`). -/
theorem filter_val_total (op : String) (val : Int) (vals : List Int) (vmin vmax : Option Int)
    (hop : op ∈ ["==", "=", "!=", "<", "<=", ">", ">=", "not in"]) :
    ∃ b, filter_val op val vals vmin vmax = .ok b := by
  simp only [List.mem_cons, List.mem_nil_iff, or_false] at hop
  rcases hop with rfl | rfl | rfl | rfl | rfl | rfl | rfl | rfl <;>
  cases vmin <;> cases vmax <;>
    simp [filter_val, filter_not_in, handle_np_array, pyIf, pyAnd, pyEq, pyGt, pyGe, pyLt, pyLe, pyCmp,
      pyIsNotNone, pyIn, toPy]

-- non-vacuity: the hypotheses are met by concrete non-trivial instances
example : filter_val ">" 10 [] (some 1) (some 10) = .ok true := by decide
example : inBounds (some 1) (some 10) 7 := ⟨fun m h => by injection h with h; omega, fun m h => by injection h with h; omega⟩
example : filter_in [3, 12] (some 5) (some 10) = .ok true := by decide
example : filter_in [3, 7] (some 5) (some 10) = .ok false := by decide

end PqV.Props.C05
