import PqV.Lemmas.Filter
/-!
# C05 — filtered reads never lose a qualifying row (row-group pruning is sound)

`Gen.Filter` is REGENERATED from `fastparquet/api.py` (`filter_val`, `filter_in`, `filter_not_in`,
`_handle_np_array`) on every run, so these theorems are re-checked against what the code says now.
`sat` is the predicate semantics on a non-null scalar; `inBounds` says the cell lies within the
chunk's recorded min/max (each optional).  Soundness: whenever the interval test says "exclude",
no cell inside the bounds satisfies the condition.
-/
namespace PqV.Props.C05
open PqV.Py PqV.Gen.Filter PqV.Filter

/-- `filter_in` excludes a row group only if no listed value can occur within the bounds. -/
theorem filter_in_sound (vals : List Int) (vmin vmax : Option Int) (x : Int)
    (h : filter_in vals vmin vmax = .ok true) (hb : inBounds vmin vmax x) : vals.contains x = false := by
  rcases hb with ⟨hmin, hmax⟩
  by_contra hx
  have hx : x ∈ vals := by simpa using hx
  have hne : vals ≠ [] := List.ne_nil_of_mem hx
  have hlen : ¬ ((vals.length : Int) = 0) := by
    have : 0 < vals.length := List.length_pos_of_mem hx
    omega
  cases vmin with
  | none =>
    cases vmax with
    | none => simp [filter_in, pyIf, pyAnd, pyEq, pyIsNone, pyIsNotNone, pyNotIn, pyIn, toPy, hne] at h
    | some M =>
      have hM := hmax M rfl
      simp [filter_in, pyIf, pyAnd, pyEq, pyIsNone, pyIsNotNone, pyNotIn, pyIn, toPy, hne] at h
      -- sorted_values[0] > vmax
      cases hs : pySorted vals with
      | nil =>
        have : x ∈ pySorted vals := (mem_pySorted x vals).mpr hx
        simp [hs] at this
      | cons a t =>
        simp [hs, pyIndex, pyGt, pyCmp] at h
        have := head_le_all vals a t hs x hx
        omega
  | some m =>
    have hm := hmin m rfl
    cases vmax with
    | none =>
      simp [filter_in, pyIf, pyAnd, pyEq, pyIsNone, pyIsNotNone, pyNotIn, pyIn, toPy, hne] at h
      -- sorted_values[-1] < vmin
      have hxs : x ∈ pySorted vals := (mem_pySorted x vals).mpr hx
      have hne' : pySorted vals ≠ [] := List.ne_nil_of_mem hxs
      have hlast := pairwise_le_getLast _ (sorted_pySorted vals) hne' x hxs
      have hpos : 0 < (pySorted vals).length := List.length_pos_of_mem hxs
      simp only [pyIndex] at h
      have e1 : ((-1 : Int) + ((pySorted vals).length : Int)) = (((pySorted vals).length - 1 : Nat) : Int) := by omega
      have hidx : ¬ ((-1 : Int) + ((pySorted vals).length : Int) < 0) := by omega
      simp [hidx, e1] at h
      have hget : (pySorted vals)[(pySorted vals).length - 1]? = some ((pySorted vals).getLast hne') := by
        rw [List.getLast_eq_getElem]; exact List.getElem?_eq_getElem (by omega)
      have hnn : ¬ ((((pySorted vals).length - 1 : Nat) : Int) < 0) := by omega
      simp [hget, pyLt, pyCmp, hnn] at h
      omega
    | some M =>
      have hM := hmax M rfl
      by_cases heq : M = m
      · subst heq
        have hxM : x = M := by omega
        subst hxM
        simp [filter_in, pyIf, pyAnd, pyEq, pyIsNone, pyIsNotNone, pyNotIn, pyIn, toPy, hne, hx,
          searchsortedLeft, searchsortedRight] at h
        have := filter_len_eq_imp (fun y => decide (y < x)) (fun y => decide (y ≤ x)) (pySorted vals)
          (by intro a ha; simp at *; omega) h x ((mem_pySorted x vals).mpr hx) (by simp)
        simp at this
      · have hne2 : ¬ (PyVal.int M = PyVal.int m) := by intro hc; injection hc with hc; exact heq hc
        simp [filter_in, pyIf, pyAnd, pyEq, pyIsNone, pyIsNotNone, pyNotIn, pyIn, toPy, hne, hne2,
          searchsortedLeft, searchsortedRight] at h
        have := filter_len_eq_imp (fun y => decide (y < m)) (fun y => decide (y ≤ M)) (pySorted vals)
          (by intro a ha; simp at *; omega) h x ((mem_pySorted x vals).mpr hx) (by simp; omega)
        simp at this; omega

/-- The interval test of every comparison operator and of `in` is sound for pruning. -/
theorem filter_val_sound (op : String) (val : Int) (vals : List Int) (vmin vmax : Option Int) (x : Int)
    (hop : op ∈ ["==", "=", "!=", "<", "<=", ">", ">=", "in"])
    (h : filter_val op val vals vmin vmax = .ok true) (hb : inBounds vmin vmax x) :
    sat op val vals x = false := by
  simp only [List.mem_cons, List.mem_nil_iff, or_false] at hop
  rcases hop with rfl | rfl | rfl | rfl | rfl | rfl | rfl | rfl
  case' inr.inr.inr.inr.inr.inr.inr =>
    have hin : filter_in vals vmin vmax = .ok true := by
      simpa [filter_val, handle_np_array, pyIf] using h
    simpa [sat] using filter_in_sound vals vmin vmax x hin hb
  all_goals
    rcases hb with ⟨hmin, hmax⟩
    cases vmin <;> cases vmax <;>
      simp [filter_val, handle_np_array, pyIf, pyAnd, pyEq, pyGt, pyGe, pyLt, pyLe, pyCmp,
        pyIsNotNone, toPy, sat] at * <;> omega

/-- `not in` is sound when the chunk holds a single value (`vmin = vmax`). -/
theorem filter_not_in_sound_partial (vals : List Int) (v x : Int)
    (h : filter_not_in vals (some v) (some v) = .ok true) (hb : inBounds (some v) (some v) x) :
    (!vals.contains x) = false := by
  rcases hb with ⟨hmin, hmax⟩
  have h1 := hmin v rfl
  have h2 := hmax v rfl
  have hxv : x = v := by omega
  subst hxv
  by_cases hc : vals.contains x = true
  · simpa using hc
  · have hx : x ∉ vals := by simpa using hc
    by_cases hl : (vals.length : Int) = 0
    · simp [filter_not_in, pyIf, pyAnd, pyEq, pyIsNotNone, pyIn, toPy, hl] at h
    · simp [filter_not_in, pyIf, pyAnd, pyEq, pyIsNotNone, pyIn, toPy, hl, hx] at h

/-- Full-strength `not in` soundness is FALSE of the code as written (known finding C05-not-in,
    pinned by `test_api.py::test_in_filters`): a row group with bounds 5..10 is excluded for
    `not in [5]` although the cell 6 qualifies. -/
theorem filter_not_in_fails :
    ∃ (vals : List Int) (vmin vmax : Option Int) (x : Int),
      filter_val "not in" 0 vals vmin vmax = .ok true ∧ inBounds vmin vmax x ∧ sat "not in" 0 vals x = true := by
  refine ⟨[5], some 5, some 10, 6, by decide, ?_, by decide⟩
  constructor <;> intro m hm <;> injection hm with hm <;> omega

/-- The interval tests never raise on optional integer bounds (no comparison with `None`). -/
theorem filter_val_total (op : String) (val : Int) (vals : List Int) (vmin vmax : Option Int)
    (hop : op ∈ ["==", "=", "!=", "<", "<=", ">", ">=", "not in"]) :
    ∃ b, filter_val op val vals vmin vmax = .ok b := by
  simp only [List.mem_cons, List.mem_nil_iff, or_false] at hop
  rcases hop with rfl | rfl | rfl | rfl | rfl | rfl | rfl | rfl <;>
  cases vmin <;> cases vmax <;>
    simp [filter_val, filter_not_in, handle_np_array, pyIf, pyAnd, pyEq, pyGt, pyGe, pyLt, pyLe, pyCmp,
      pyIsNotNone, pyIn, toPy]

-- non-vacuity: the hypotheses are met by concrete non-trivial instances
example : filter_val ">" 10 [] (some 1) (some 10) = .ok true := by decide
example : inBounds (some 1) (some 10) 7 := ⟨fun m h => by injection h with h; omega, fun m h => by injection h with h; omega⟩
example : filter_in [3, 12] (some 5) (some 10) = .ok true := by decide
example : filter_in [3, 7] (some 5) (some 10) = .ok false := by decide

end PqV.Props.C05
