import PqV.Impl.Merge
import PqV.Impl.Append
import Mathlib.Tactic.Linarith
/-!
# C14 — opening or merging many files yields their concatenation
-/
namespace PqV.Props.C14
open PqV.Impl.Merge PqV.Impl.Append

theorem firstDiff_prefix (b p : List String) (k0 k : Nat) (h : firstDiff b p k0 = some k) :
    k0 ≤ k ∧ b.take (k - k0) = p.take (k - k0) ∧ k - k0 < b.length ∧ k - k0 < p.length := by
  induction b generalizing p k0 with
  | nil => simp [firstDiff] at h
  | cons x xs ih =>
    cases p with
    | nil => simp [firstDiff] at h
    | cons y ys =>
      simp only [firstDiff] at h
      split at h
      · injection h with h; subst h; simp
      · rename_i hne
        have hxy : x = y := by simpa using hne
        obtain ⟨h1, h2, h3, h4⟩ := ih ys (k0 + 1) h
        refine ⟨by omega, ?_, ?_, ?_⟩
        · have e : k - k0 = (k - (k0 + 1)) + 1 := by omega
          rw [e]; simp [hxy, h2]
        · simp; omega
        · simp; omega

theorem firstDiff_none (b p : List String) (k0 : Nat) (h : firstDiff b p k0 = none) :
    b.take (min b.length p.length) = p.take (min b.length p.length) := by
  induction b generalizing p k0 with
  | nil => simp
  | cons x xs ih =>
    cases p with
    | nil => simp
    | cons y ys =>
      simp only [firstDiff] at h
      split at h
      · cases h
      · rename_i hne
        have hxy : x = y := by simpa using hne
        have := ih ys (k0 + 1) h
        simp only [List.length_cons, Nat.succ_min_succ, List.take_succ_cons, hxy, this]

/-- one loop iteration keeps a prefix of the old base that is also a proper prefix of the path -/
theorem step_prefix (base path : List String) (hp : path ≠ []) :
    (step base path) <+: base ∧ (step base path) <+: path ∧ (step base path).length < path.length := by
  have hlen : 0 < path.length := List.length_pos_iff.mpr hp
  cases h : firstDiff base path 0 with
  | some k =>
    obtain ⟨_, h2, h3, h4⟩ := firstDiff_prefix base path 0 k h
    simp only [Nat.sub_zero] at h2 h3 h4
    have hs : step base path = base.take k := by simp [step, h]
    rw [hs]
    refine ⟨List.take_prefix _ _, ?_, ?_⟩
    · rw [h2]; exact List.take_prefix _ _
    · simp; omega
  | none =>
    have hn := firstDiff_none base path 0 h
    have hs : step base path = base.take (path.length - 1) := by simp [step, h]
    rw [hs]
    refine ⟨List.take_prefix _ _, ?_, ?_⟩
    · by_cases hbl : base.length ≤ path.length
      · -- base itself is a prefix of path
        have hb : base = path.take base.length := by
          have := hn
          rw [Nat.min_eq_left hbl, List.take_length] at this
          exact this
        exact (List.take_prefix _ _).trans (hb ▸ List.take_prefix _ _)
      · have hpl : min base.length path.length = path.length := by omega
        rw [hpl, List.take_length] at hn
        have : base.take (path.length - 1) = path.take (path.length - 1) := by
          have e : base.take (path.length - 1) = (base.take path.length).take (path.length - 1) := by
            rw [List.take_take]; congr 1; omega
          rw [e, hn]
        rw [this]; exact List.take_prefix _ _
    · simp; omega

theorem foldl_step_prefix (paths : List (List String)) (b0 : List String) (hne : ∀ p ∈ paths, p ≠ []) :
    (paths.foldl step b0) <+: b0 ∧ ∀ p ∈ paths, (paths.foldl step b0) <+: p ∧ (paths.foldl step b0).length < p.length := by
  induction paths generalizing b0 with
  | nil => exact ⟨List.prefix_refl _, by simp⟩
  | cons p ps ih =>
    simp only [List.foldl_cons]
    obtain ⟨h1, h2, h3⟩ := step_prefix b0 p (hne p (by simp))
    obtain ⟨i1, i2⟩ := ih (step b0 p) (fun q hq => hne q (List.mem_cons_of_mem _ hq))
    refine ⟨i1.trans h1, ?_⟩
    intro q hq
    rcases List.mem_cons.mp hq with rfl | hq
    · exact ⟨i1.trans h2, by have := i1.length_le; omega⟩
    · exact i2 q hq

/-- The inferred base path is a prefix of every given path, strictly shorter than each (every
    relative path keeps at least its file name), and base ++ relative = the original path. -/
theorem paths_reconstruct (paths : List (List String)) (hne : ∀ p ∈ paths, p ≠ []) :
    let r := analysePaths paths
    (∀ p ∈ paths, r.1 <+: p ∧ r.1.length < p.length) ∧
    (r.2.length = paths.length) ∧
    (∀ i (h1 : i < paths.length) (h2 : i < r.2.length), r.1 ++ r.2[i] = paths[i]) := by
  cases paths with
  | nil => simp [analysePaths]
  | cons p0 ps =>
    simp only [analysePaths]
    obtain ⟨_, hall⟩ := foldl_step_prefix (p0 :: ps) p0.dropLast hne
    refine ⟨hall, by simp, ?_⟩
    intro i h1 h2
    simp only [List.getElem_map]
    have hpre := (hall _ (List.getElem_mem h1)).1
    obtain ⟨t, ht⟩ := hpre
    rw [← ht]; simp

/-- with an explicit root the same holds, or the call is refused -/
theorem root_reconstruct (root : List String) (paths : List (List String)) (r : List String × List (List String))
    (h : analysePathsRoot root paths = some r) :
    r.1 = root ∧ ∀ i (h1 : i < paths.length) (h2 : i < r.2.length), r.1 ++ r.2[i] = paths[i] := by
  unfold analysePathsRoot at h
  split at h
  · rename_i hall
    injection h with h; subst h
    refine ⟨rfl, ?_⟩
    intro i h1 h2
    simp only [List.getElem_map]
    have := List.all_eq_true.mp hall _ (List.getElem_mem h1)
    have e : (paths[i]).take root.length = root := by simpa using this
    conv_rhs => rw [← List.take_append_drop root.length paths[i]]
    rw [e]
  · cases h

/-- rows: the merged dataset is the concatenation in the given order, the row count is the sum -/
theorem merge_rows (files : List (List Nat)) : (mergeRows files).length = numRows files := by
  simp [mergeRows, numRows, List.length_flatten]

theorem merge_order (a b : List (List Nat)) : mergeRows (a ++ b) = mergeRows a ++ mergeRows b := by
  simp [mergeRows]

/-- categoricals across files: right labels when the dictionaries agree, not otherwise
    (the reader keeps one categories array per output column; same finding as C07) -/
theorem merge_cats_partial (chunks : List CatChunk) (d : List String) (h : ∀ c ∈ chunks, c.dict = d) :
    (chunks.flatMap (·.codes)).map (fun i => ((chunks.getLast?.map (·.dict)).getD [])[i]?) = chunks.flatMap (·.labels) := by
  cases hl : chunks.getLast? with
  | none =>
    have : chunks = [] := by simpa using hl
    subst this; simp
  | some last =>
    have hmem : last ∈ chunks := List.mem_of_getLast? hl
    simp only [Option.map_some, Option.getD_some, h last hmem]
    clear hl hmem
    induction chunks with
    | nil => simp
    | cons c cs ih =>
      simp only [List.flatMap_cons, List.map_append, CatChunk.labels, h c (List.mem_cons_self ..)]
      congr 1
      exact ih (fun x hx => h x (List.mem_cons_of_mem _ hx))

theorem merge_cats_fails : ∃ chunks : List CatChunk, readCats chunks ≠ chunks.flatMap (·.labels) :=
  ⟨[⟨["x", "y"], [0, 1]⟩, ⟨["y", "x"], [0, 1]⟩], by decide⟩

example : analysePaths [["data", "a", "f1"], ["data", "b", "f2"]] = (["data"], [["a", "f1"], ["b", "f2"]]) := by decide
example : analysePaths [["d", "f1"], ["d", "f1", "x"]] = (["d"], [["f1"], ["f1", "x"]]) := by decide

end PqV.Props.C14
