import PqV.Lemmas.KVarint
import PqV.Lemmas.Varint
import PqV.Impl.ThriftSer
/-!
# C12 — native code stays inside its buffers and the process never crashes
Model-level safety: the code-shaped models return an explicit `Fault` for every load or store
outside the buffer handed to the kernel and for every out-of-range shift; "safe" = no Fault.
-/
namespace PqV.Props.C12
open PqV.Spec PqV.Impl

/-- `read_unsigned_var_int` on any well-formed varint (any uint64), anywhere in a buffer, with or
    without bytes behind it: no out-of-bounds read, no shift ≥ 64, and it stops at the varint's end. -/
theorem readUvarint_safe (x : Nat) (hx : x < 2 ^ 64) (pre rest : List Nat) :
    ∃ r, readUvarint (pre ++ uvarintEnc x ++ rest) pre.length = .ok r ∧ r.2 = pre.length + uvarintLen x :=
  ⟨_, readUvarint_enc x hx pre rest, rfl⟩

/-- the 10-byte scratch buffers of `encode_dict` / `make_definitions` are large enough: counts are
    checked to be < 2^31 (`check_32`), their header `(n << 1) | 1` is < 2^35, i.e. at most 5 bytes -/
theorem header_scratch_suffices (n : Nat) (h : n < 2 ^ 31) : uvarintLen (n * 2 + 1) ≤ 5 :=
  uvarintLen_le 5 (by decide) _ (by omega)

theorem length_prefix_scratch (n : Nat) (h : n < 2 ^ 32) : 4 + uvarintLen (n * 2 + 1) ≤ 10 := by
  have := uvarintLen_le 5 (by decide) (n * 2 + 1) (by omega)
  omega

/-- `read_rle` reads exactly `⌈w/8⌉` bytes: safe whenever they are there (and w ≤ 32) -/
theorem readRle_safe (buf : List Nat) (ip header w : Nat) (o : Out) (item : Nat)
    (hw : w ≤ 32) (hb : ip + (w + 7) / 8 ≤ buf.length) :
    ∃ r, readRle buf ip header w o item = .ok r := by
  unfold readRle
  have key : ∀ (k i data : Nat), i + k = (w + 7) / 8 → ∃ d, rleData buf ip k i data = .ok d := by
    intro k
    induction k with
    | zero => intro i data _; exact ⟨data, rfl⟩
    | succ k ih =>
      intro i data hik
      unfold rleData
      have hlt : ip + i < buf.length := by omega
      have hrd : rd buf (ip + i) = .ok buf[ip + i] := by simp [rd, hlt]
      have hs : ¬ (i * 8 ≥ 32) := by omega
      simp only [hrd, bind, Except.bind, hs, if_false]
      exact ih (i + 1) _ (by omega)
  obtain ⟨d, hd⟩ := key ((w + 7) / 8) 0 0 (by omega)
  simp [hd, bind, Except.bind]

/-- The serialiser's fixed buffer CAN be too small (known finding C10-overflow / C12-thrift-overflow):
    for EVERY `Statistics` whose `max` is at least 500000 bytes long the serialised form is longer than
    the buffer `to_bytes` allocates — the unchecked memcpy then writes past it. -/
theorem tobytes_overflows (bs : List Nat) (h : 500000 ≤ bs.length) :
    ∃ out, ThriftSer.toBytes (.dict .none [(1, .bytes bs)]) = some out ∧
      ThriftSer.toBytesSize "Statistics" (.dict .none [(1, .bytes bs)]) < out.length := by
  refine ⟨[0x18] ++ encodeUvarint bs.length ++ bs ++ [0], ?_, ?_⟩
  · simp [ThriftSer.toBytes, ThriftSer.PyT.weight, ThriftSer.weightEntries, ThriftSer.writeThrift, ThriftSer.writeFields,
      ThriftSer.lookup, PqV.Gen.Specs.loopHi, PqV.Gen.Specs.loopLo]
  · simp [ThriftSer.toBytesSize, PqV.Gen.Specs.sizeFloor, PqV.Gen.Specs.sizePerUnit]
    omega

end PqV.Props.C12
