import PqV.Lemmas.KVarint
import PqV.Lemmas.Varint
import PqV.Impl.ThriftSer
import PqV.Lemmas.KBitpacked
import PqV.Lemmas.KHybrid
import PqV.Lemmas.KDelta
import PqV.Lemmas.KPlain
import PqV.Lemmas.KDeltaLoop
/-!
# C12 — native code stays inside its buffers and the process never crashes
Model-level safety: the code-shaped models return an explicit `Fault` for every load or store
outside the buffer handed to the kernel and for every out-of-range shift; "safe" = no Fault.
-/
namespace PqV.Props.C12
open PqV.Spec PqV.Impl

/-- `read_unsigned_var_int` on any well-formed varint (any uint64), anywhere in a buffer, with or
    without bytes behind it: no out-of-bounds read, no shift ≥ 64, and it stops at the varint's end. -/
theorem readUvarint_safe (x : Nat) (hx : x < 2 ^ 64) (pre rest : List Nat) :
    ∃ r, readUvarint (pre ++ uvarintEnc x ++ rest) pre.length = .ok r ∧ r.2 = pre.length + uvarintLen x :=
  ⟨_, readUvarint_enc x hx pre rest, rfl⟩

/-- the 10-byte scratch buffers of `encode_dict` / `make_definitions` are large enough: counts are
    checked to be < 2^31 (`check_32`), their header `(n << 1) | 1` is < 2^35, i.e. at most 5 bytes -/
theorem header_scratch_suffices (n : Nat) (h : n < 2 ^ 31) : uvarintLen (n * 2 + 1) ≤ 5 :=
  uvarintLen_le 5 (by decide) _ (by omega)

theorem length_prefix_scratch (n : Nat) (h : n < 2 ^ 32) : 4 + uvarintLen (n * 2 + 1) ≤ 10 := by
  have := uvarintLen_le 5 (by decide) (n * 2 + 1) (by omega)
  omega

/-- `read_rle` reads exactly `⌈w/8⌉` bytes: safe whenever they are there (and w ≤ 32) -/
theorem readRle_safe (buf : List Nat) (ip header w : Nat) (o : Out) (item : Nat)
    (hw : w ≤ 32) (hb : ip + (w + 7) / 8 ≤ buf.length) :
    ∃ r, readRle buf ip header w o item = .ok r := by
  unfold readRle
  have key : ∀ (k i data : Nat), i + k = (w + 7) / 8 → ∃ d, rleData buf ip k i data = .ok d := by
    intro k
    induction k with
    | zero => intro i data _; exact ⟨data, rfl⟩
    | succ k ih =>
      intro i data hik
      unfold rleData
      have hlt : ip + i < buf.length := by omega
      have hrd : rd buf (ip + i) = .ok buf[ip + i] := by simp [rd, hlt]
      have hs : ¬ (i * 8 ≥ 32) := by omega
      simp only [hrd, bind, Except.bind, hs, if_false]
      exact ih (i + 1) _ (by omega)
  obtain ⟨d, hd⟩ := key ((w + 7) / 8) 0 0 (by omega)
  simp [hd, bind, Except.bind]

/-- The serialiser's fixed buffer CAN be too small (known finding C10-overflow / C12-thrift-overflow):
    for EVERY `Statistics` whose `max` is at least 500000 bytes long the serialised form is longer than
    the buffer `to_bytes` allocates — the unchecked memcpy then writes past it. -/
theorem tobytes_overflows (bs : List Nat) (h : 500000 ≤ bs.length) :
    ∃ out, ThriftSer.toBytes (.dict .none [(1, .bytes bs)]) = some out ∧
      ThriftSer.toBytesSize "Statistics" (.dict .none [(1, .bytes bs)]) < out.length := by
  refine ⟨[0x18] ++ encodeUvarint bs.length ++ bs ++ [0], ?_, ?_⟩
  · simp [ThriftSer.toBytes, ThriftSer.PyT.weight, ThriftSer.weightEntries, ThriftSer.writeThrift, ThriftSer.writeFields,
      ThriftSer.lookup, PqV.Gen.Specs.loopHi, PqV.Gen.Specs.loopLo]
  · simp [ThriftSer.toBytesSize, PqV.Gen.Specs.sizeFloor, PqV.Gen.Specs.sizePerUnit]
    omega

/-! ### "no Fault" on every in-bounds input, for the kernels whose refinement is proved
(a successful result of the code-shaped model means: no load or store outside the buffers, no
out-of-range shift, at any point of the run) -/

/-- `read_bitpacked`, every width ≤ 24: any header, any position, any room in the output -/
theorem readBitpacked_safe (buf : List Nat) (hbytes : ∀ b ∈ buf, b < 256) (ip0 header w : Nat) (o : Out) (hw : w ≤ 24)
    (h0 : ip0 < buf.length) (hbuf : ip0 + (header / 2 * 8 * w + 7) / 8 ≤ buf.length) :
    ∃ r, readBitpacked buf ip0 header w o 4 = .ok r :=
  ⟨_, readBitpacked_ok buf hbytes ip0 header w o hw h0 hbuf⟩

/-- `read_rle_bit_packed_hybrid`, widths 1..24, on every well-formed run stream -/
theorem readHybrid_safe (w : Nat) (hw1 : 1 ≤ w) (hw : w ≤ 24) (rs : List Run) (pre post : List Nat) (n : Nat)
    (hok : ∀ r ∈ rs, r.wf w = true ∧ RunOk r) (hpre : ∀ b ∈ pre, b < 256) (hpost : ∀ b ∈ post, b < 256)
    (hn : n ≤ (rs.flatMap Run.values).length) :
    ∃ r, readHybrid (pre ++ encodeRuns w rs ++ post) pre.length w (encodeRuns w rs).length { items := [], cap := 4 * n } 4 = .ok r := by
  obtain ⟨o', loc', h, _⟩ := readHybrid_eq_spec w hw1 hw rs pre post n hok hpre hpost hn
  exact ⟨_, h⟩

/-- `delta_read_bitpacked`, widths 1..28, any count, whenever the miniblock's bytes are there -/
theorem deltaReadBitpacked_safe (buf : List Nat) (hbytes : ∀ b ∈ buf, b < 256) (loc0 w n : Nat) (hw1 : 1 ≤ w) (hw : w ≤ 28)
    (hbuf : loc0 + (n * w + 7) / 8 ≤ buf.length) : ∃ r, deltaReadBitpacked buf loc0 w n = .ok r :=
  ⟨_, deltaReadBitpacked_ok buf hbytes loc0 w n hw1 hw hbuf⟩

/-- `read_bitpacked1`: room for `count` items and `⌈count/8⌉` bytes present -/
theorem readBitpacked1_safe (buf : List Nat) (hbytes : ∀ b ∈ buf, b < 256) (ip count : Nat) (o : Out)
    (hcap : count ≤ o.cap) (hlen : ip + (count + 7) / 8 ≤ buf.length) : ∃ r, readBitpacked1 buf ip count o = .ok r :=
  ⟨_, readBitpacked1_refines buf hbytes ip count o hcap hlen⟩

/-- `unpack_byte_array` on every buffer a conforming PLAIN BYTE_ARRAY page can hold (each item shorter
    than 2^31 bytes).  A length prefix that points past the buffer is the known finding. -/
theorem unpackByteArray_safe (items : List (List Nat)) (hl : ∀ it ∈ items, it.length < 2 ^ 31) (pre tail : List Nat) :
    ∃ r, unpackByteArray (pre ++ packByteArray items ++ tail) pre.length items.length = .ok r :=
  ⟨_, unpackByteArray_roundtrip items hl pre tail⟩

/-- `delta_binary_unpack` on every conforming stream with miniblock widths ≤ 28 whose announced count
    is covered by its blocks: header, width bytes and packed miniblocks are read inside the buffer, the
    values are stored inside the output array (what does not fit is dropped by `write_int/long`), no
    out-of-range shift -/
theorem deltaBinaryUnpack_safe (pre post : List Nat) (longval : Bool) (blockSize mpb cnt : Nat) (first : Int) (blocks : List Block)
    (hbs : blockSize < 2 ^ 64) (hmpb64 : mpb < 2 ^ 64) (hfirst : okI64 first)
    (hmpb : 1 ≤ mpb) (hvpm : 1 ≤ blockSize / mpb) (hcnt1 : 1 ≤ cnt) (hcnt : cnt < 2 ^ 63)
    (hblocks : ∀ b ∈ blocks, BlockOk (blockSize / mpb) mpb b)
    (hroom : cnt ≤ blockSize / mpb * mpb * blocks.length)
    (hbytes : ∀ b ∈ pre ++ encStreamP blockSize mpb cnt first blocks ++ post, b < 256) :
    ∃ r, deltaBinaryUnpack (pre ++ encStreamP blockSize mpb cnt first blocks ++ post) pre.length cnt longval = .ok r := by
  obtain ⟨slots, loc', h, _⟩ := deltaBinaryUnpack_concrete pre post longval blockSize mpb cnt first blocks hbs hmpb64 hfirst
    hmpb hvpm hcnt1 hcnt hblocks hroom hbytes
  exact ⟨_, h⟩

/-- …and the over-read is real at model level: a length prefix of 5 with 2 bytes behind it faults -/
example : unpackByteArray [5, 0, 0, 0, 1, 2] 0 1 = .error (.oobRead 8 6) := by decide

end PqV.Props.C12
