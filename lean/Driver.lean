import PqV.Drv.Kern
import PqV.Drv.Filter
import PqV.Drv.Footer
import PqV.Drv.Fs
import PqV.Drv.Access
import PqV.Drv.RowFilter
import PqV.Drv.Stats
import PqV.Drv.Part
import PqV.Drv.Merge
import PqV.Drv.Thrift
import PqV.Drv.Dtype
import PqV.Drv.File
import PqV.Drv.Nested
import PqV.Drv.WPage
/-
  `pqv` — line-protocol driver over the executable definitions of PqV (Spec, Impl, Gen).
  One request per line on stdin, one reply per line on stdout.  Pure per line.
-/
open PqV.Drv

def handleLine (line : String) : String :=
  let toks := (line.splitOn " ").filter (· ≠ "")
  match toks with
  | stream :: op :: rest =>
    let a := parseArgs rest
    match stream with
    | "kern" => handleKern op a
    | "spec" => handleSpec op a
    | "filter" => handleFilter op a
    | "footer" => handleFooter op a
    | "fs" => handleFs op a
    | "ds" => handleDs op a
    | "access" => handleAccess op a
    | "rowfilter" => handleRowFilter op a
    | "stats" => handleStats op a
    | "part" => handlePart op a
    | "merge" => handleMerge op a
    | "thrift" => handleThrift op a
    | "dtype" => handleDtype op a
    | "file" => handleFile op a
    | "nested" => handleNested op a
    | "wpage" => handleWPage op a
    | _ => s!"err unknown-stream {stream}"
  | _ => "err bad-request"

partial def loop (h : IO.FS.Stream) (out : IO.FS.Stream) : IO Unit := do
  let line ← h.getLine
  if line.isEmpty then return ()
  let l := line.trimAscii.toString
  if l.isEmpty then out.putStrLn "" else out.putStrLn (handleLine l)
  out.flush
  loop h out

def main : IO Unit := do
  loop (← IO.getStdin) (← IO.getStdout)
