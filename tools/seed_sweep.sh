#!/bin/sh
# usage: tools/seed_sweep.sh SEED [ID...]   — quick tier of the given (default: all) checks under one seed; prints one line per check
seed=$1; shift
ids=${*:-C01 C02 C03 C04 C05 C06 C07 C08 C09 C10 C11 C12 C13 C14 C15 C16 C17 C18 C19 C20}
./check --setup > setup.log 2>&1 || { echo "setup failed"; exit 2; }
for p in $ids; do
  VERIF_SEED=$seed ./check $p --tier quick > sweep_$p.log 2>&1; rc=$?
  echo "$p seed=$seed rc=$rc $(grep -c '^VIOLATION' sweep_$p.log) $(grep '^VIOLATION' sweep_$p.log | head -2 | tr '\n' ' ')"
done
