#!/usr/bin/env python3
"""Register confirmed seeded mutants under /verif/seeded/<id>/ and (optionally) run the property's
check against each: apply to /repo, run, undo.   usage: register_seeded.py [--run] [PROP ...]"""
import json, os, shutil, subprocess, sys
VERIF = os.path.dirname(os.path.dirname(os.path.abspath(__file__)))
SRC = "/tmp/mut"
run = "--run" in sys.argv
props = [a for a in sys.argv[1:] if not a.startswith("--")] or sorted(os.listdir(SRC))
manifest = json.load(open(os.path.join(VERIF, "MANIFEST.json")))
claimed = {c["property_id"] for c in manifest["checks"]}
for prop in props:
    for m in ("m1", "m2", "m3", "m4", "m5", "m6", "m7", "m8", "m9", "m10", "m11", "m12"):
        d = os.path.join(SRC, prop)
        if not os.path.exists(os.path.join(d, m + ".diff")):
            continue
        sid = f"{prop}-{m}"
        out = os.path.join(VERIF, "seeded", sid)
        os.makedirs(out, exist_ok=True)
        shutil.copy(os.path.join(d, m + ".diff"), os.path.join(out, "patch.diff"))
        shutil.copy(os.path.join(d, m + "_demo.py"), os.path.join(out, "demo.py"))
        meta_p = os.path.join(out, "meta.json")
        meta = json.load(open(meta_p)) if os.path.exists(meta_p) else {}
        try:
            agent = json.load(open(os.path.join(d, m + "_meta.json")))
        except Exception:
            agent = {}
        conf = open(os.path.join(d, m + ".confirm")).read().strip() if os.path.exists(os.path.join(d, m + ".confirm")) else "not confirmed"
        meta.update({"id": sid, "property": prop, "summary": agent.get("summary"), "needs": agent.get("needs"),
                     "files": agent.get("files"), "origin": "independent sub-agent given only the property text and a scratch worktree",
                     "confirmed": conf,
                     "what_i_ran": "tools/confirm_mutant.sh: scratch worktree of /repo; demo exits 0 on the clean tree and non-zero with the patch; "
                                   "tools/baseline_check.py with the patch applied reproduces all 339 baseline passes"})
        check_prop = {"C10-m2": "C14", "C07-m3": "C18", "C10-m3": "C16", "C10-m4": "C02", "C02-m8": "C09", "C05-m7": "C04", "C10-m6": "C14", "C11-m1": "C02"}.get(sid, prop)      # a change may be caught by another property's check
        if run and prop in claimed:
            r = subprocess.run(["git", "-C", os.environ.get("VERIF_REPO", "/repo"), "apply", os.path.join(out, "patch.diff")], capture_output=True, text=True)
            if r.returncode != 0:
                meta["detection"] = {"error": "patch does not apply to the current tree: " + r.stderr[:200]}
            else:
                try:
                    c = subprocess.run([os.path.join(VERIF, "check"), check_prop, "--tier", "quick"], cwd=VERIF, capture_output=True, text=True, timeout=3000)
                    lines = [l[:300] for l in c.stdout.split("\n") if l.startswith("VIOLATION") or l.startswith("KNOWN-FINDING")]
                    meta["detection"] = {"check": f"./check {check_prop} --tier quick", "exit": c.returncode,
                                         "detected": c.returncode == 1, "lines": lines[:6]}
                finally:
                    subprocess.run(["git", "-C", os.environ.get("VERIF_REPO", "/repo"), "checkout", "--", "."])
                    # a run against a seeded change must not leave its evidence / replay files behind: restore the committed ones
                    subprocess.run(["git", "-C", VERIF, "checkout", "--", "evidence"])
            print(sid, meta.get("detection", {}).get("exit"), meta.get("detection", {}).get("detected"))
        json.dump(meta, open(meta_p, "w"), indent=1)
