#!/venv/bin/python
"""Run the repository's test suite (guard off) and compare with /root/.vp/BASELINE.json stable_pass."""
import json, subprocess, sys, xml.etree.ElementTree as ET, os, tempfile
base = json.load(open("/root/.vp/BASELINE.json"))
out = tempfile.mktemp(suffix=".xml", dir="/var/tmp")
cmd = ["/venv/bin/python", "-m", "pytest", "-q", "-p", "no:cacheprovider", "--timeout=900",
       "--continue-on-collection-errors", "-n", sys.argv[1] if len(sys.argv) > 1 else "8", f"--junitxml={out}"]
subprocess.run(cmd, cwd=os.environ.get("VERIF_REPO", "/repo"), capture_output=True)
passed = set()
for tc in ET.parse(out).getroot().iter("testcase"):
    if not any(ch.tag in ("failure", "error", "skipped") for ch in tc):
        passed.add(f"{tc.get('classname')}::{tc.get('name')}")
os.remove(out)
want = set(base["stable_pass"])
missing = sorted(want - passed)
print(f"baseline stable_pass={len(want)} passed_now={len(passed & want)} missing={len(missing)}")
for m in missing[:20]:
    print("  NOT PASSING:", m)
sys.exit(1 if missing else 0)
