"""parquet.thrift -> PqV/Gen/Idl.lean (structs, unions, enums with field id / requiredness / type)."""
import os, re
from tools.translate import register
from tools.translate_py import Unsupported

PRIM = {"bool": ".bool", "byte": ".i8", "i8": ".i8", "i16": ".i16", "i32": ".i32", "i64": ".i64",
        "double": ".double", "binary": ".binary", "string": ".string"}


def strip_comments(txt):
    txt = re.sub(r"/\*.*?\*/", "", txt, flags=re.S)
    txt = re.sub(r"//[^\n]*", "", txt)
    txt = re.sub(r"#[^\n]*", "", txt)
    return txt


def parse_idl(path):
    txt = strip_comments(open(path).read())
    enums = re.findall(r"\benum\s+(\w+)\s*\{", txt)
    structs = {}
    for m in re.finditer(r"\b(struct|union)\s+(\w+)\s*\{([^}]*)\}", txt):
        kind, name, body = m.groups()
        fields = []
        for fm in re.finditer(r"(\d+)\s*:\s*(required|optional)?\s*([\w<>]+)\s+(\w+)\s*[;,]?", body):
            fid, req, ty, fname = fm.groups()
            fields.append((int(fid), fname, req == "required", ty))
        structs[name] = (kind, fields)
    return enums, structs


def lean_type(ty, enums, structs):
    if ty in PRIM:
        return PRIM[ty]
    m = re.fullmatch(r"list<(.+)>", ty)
    if m:
        return f"(.list {lean_type(m.group(1), enums, structs)})"
    if ty in enums:
        return f'(.enum "{ty}")'
    if ty in structs:
        return f'(.struct "{ty}")'
    raise Unsupported(f"IDL type {ty}")


@register("Idl")
def gen_idl(repo):
    enums, structs = parse_idl(os.path.join(repo, "fastparquet", "parquet.thrift"))
    if not structs:
        raise Unsupported("no structs parsed from parquet.thrift")
    out = ["-- REGENERATED on every run by tools/translate_idl.py from fastparquet/parquet.thrift — do not edit",
           "namespace PqV.Gen.Idl",
           "inductive TT where",
           "  | bool | i8 | i16 | i32 | i64 | double | binary | string",
           "  | enum (name : String) | struct (name : String) | list (elem : TT)",
           "  deriving Repr, DecidableEq, BEq",
           "structure Field where",
           "  id : Nat",
           "  name : String",
           "  required : Bool",
           "  ty : TT",
           "  deriving Repr, DecidableEq",
           "def enums : List String := [" + ", ".join(f'"{e}"' for e in enums) + "]",
           "def structs : List (String × List Field) := ["]
    rows = []
    for name, (kind, fields) in structs.items():
        fs = ", ".join(f'⟨{fid}, "{fn}", {"true" if req else "false"}, {lean_type(ty, enums, structs)}⟩' for fid, fn, req, ty in fields)
        rows.append(f'  ("{name}", [{fs}])')
    out.append(",\n".join(rows))
    out.append("]")
    out.append("end PqV.Gen.Idl")
    return "\n".join(out) + "\n"
