"""placeholder; filled in below"""
