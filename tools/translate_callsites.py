"""Small source-shape translators (regenerated tables): ordered I/O calls of functions whose
correctness rests on the *order* of their file operations."""
import ast, os
from tools.translate import register
from tools.translate_py import Unsupported, find_func


def io_calls(fn, handle="f", extra_writers=("write_thrift",)):
    """ordered list of method names called on `handle` inside fn (textual order), counting
    helper(handle, ...) calls listed in extra_writers as 'write'."""
    calls = []
    for node in ast.walk(fn):
        if isinstance(node, ast.Call):
            f = node.func
            if isinstance(f, ast.Attribute) and isinstance(f.value, ast.Name) and f.value.id == handle:
                calls.append((node.lineno, node.col_offset, f.attr))
            elif isinstance(f, ast.Name) and f.id in extra_writers and node.args and isinstance(node.args[0], ast.Name) \
                    and node.args[0].id == handle:
                calls.append((node.lineno, node.col_offset, "write"))
    return [c[2] for c in sorted(calls)]


@register("FooterIO")
def gen_footer_io(repo):
    src = open(os.path.join(repo, "fastparquet", "writer.py")).read()
    fn = find_func(ast.parse(src), "update_file_custom_metadata")
    ops = io_calls(fn)
    if not ops:
        raise Unsupported("no file operations found in update_file_custom_metadata")
    lst = ", ".join('"%s"' % o for o in ops)
    return ("-- REGENERATED on every run by tools/translate_callsites.py from fastparquet/writer.py — do not edit\n"
            "namespace PqV.Gen.FooterIO\n"
            f"/-- file-method calls of `update_file_custom_metadata` (line {fn.lineno}) in source order -/\n"
            f"def ioOps : List String := [{lst}]\n"
            "/-- does the function truncate the file after writing the new trailer? -/\n"
            "def truncates : Bool := ioOps.getLast? == some \"truncate\"\n"
            "end PqV.Gen.FooterIO\n")


@register("AppendIO")
def gen_append_io(repo):
    """write_simple.write_to_file: does the append branch restore the saved footer when writing the
    new row groups fails?  (ordered file-method calls inside the `except` handler + re-raise)"""
    src = open(os.path.join(repo, "fastparquet", "writer.py")).read()
    fn = find_func(ast.parse(src), "write_simple")
    inner = [n for n in ast.walk(fn) if isinstance(n, ast.FunctionDef) and n.name == "write_to_file"]
    if not inner:
        raise Unsupported("write_to_file not found in write_simple")
    inner = inner[0]
    handler_ops, reraises = [], False
    for node in ast.walk(inner):
        if isinstance(node, ast.ExceptHandler):
            calls = []
            for n in ast.walk(node):
                if isinstance(n, ast.Call) and isinstance(n.func, ast.Attribute) and isinstance(n.func.value, ast.Name) and n.func.value.id == "f":
                    calls.append((n.lineno, n.col_offset, n.func.attr))
                if isinstance(n, ast.Raise) and n.exc is None:
                    reraises = True
            handler_ops += [c[2] for c in sorted(calls)]
    main_ops = io_calls(inner, extra_writers=("write_thrift", "make_row_group"))
    lst = ", ".join('"%s"' % o for o in handler_ops)
    mst = ", ".join('"%s"' % o for o in main_ops)
    return ("-- REGENERATED on every run by tools/translate_callsites.py from fastparquet/writer.py — do not edit\n"
            "namespace PqV.Gen.AppendIO\n"
            f"/-- file-method calls of `write_simple.write_to_file` (line {inner.lineno}) in source order -/\n"
            f"def ioOps : List String := [{mst}]\n"
            "/-- file-method calls inside its exception handler -/\n"
            f"def handlerOps : List String := [{lst}]\n"
            f"def reraises : Bool := {'true' if reraises else 'false'}\n"
            "/-- the append branch rolls the footer back on failure -/\n"
            "def rollsBack : Bool := handlerOps == [\"seek\", \"write\", \"truncate\"] && reraises\n"
            "end PqV.Gen.AppendIO\n")


@register("Access")
def gen_access(repo):
    """ParquetFile.head: is the loop variable `i` bound before the `for` loop (so that a dataset
    with zero row groups does not hit an unbound name)?"""
    src = open(os.path.join(repo, "fastparquet", "api.py")).read()
    tree = ast.parse(src)
    cls = [n for n in tree.body if isinstance(n, ast.ClassDef) and n.name == "ParquetFile"][0]
    head = [n for n in cls.body if isinstance(n, ast.FunctionDef) and n.name == "head"][0]
    bound = False
    loop_var = None
    for st in head.body:
        if isinstance(st, ast.For):
            t = st.target
            names = [e.id for e in (t.elts if isinstance(t, ast.Tuple) else [t]) if isinstance(e, ast.Name)]
            loop_var = names[0] if names else None
            break
        if isinstance(st, ast.Assign):
            for tg in st.targets:
                for e in (tg.elts if isinstance(tg, ast.Tuple) else [tg]):
                    if isinstance(e, ast.Name) and e.id == "i":
                        bound = True
    if loop_var is None:
        raise Unsupported("ParquetFile.head no longer has the for-loop shape the model assumes")
    return ("-- REGENERATED on every run by tools/translate_callsites.py from fastparquet/api.py — do not edit\n"
            "namespace PqV.Gen.Access\n"
            f"/-- `ParquetFile.head` (line {head.lineno}): the index used after the loop is bound before it -/\n"
            f"def headInitialisesI : Bool := {'true' if bound else 'false'}\n"
            "end PqV.Gen.Access\n")


@register("Stats")
def gen_stats(repo):
    """write_column: does the categorical statistics branch order the labels by category position
    (`.as_ordered()`) or by the label values themselves?"""
    src = open(os.path.join(repo, "fastparquet", "writer.py")).read()
    fn = find_func(ast.parse(src), "write_column")
    branch = None
    for node in ast.walk(fn):
        if isinstance(node, ast.If) and "CategoricalDtype" in ast.dump(node.test) and "stats" in ast.dump(node.test):
            branch = node
            break
    if branch is None:
        raise Unsupported("categorical statistics branch of write_column not found")
    body_src = "\n".join(ast.unparse(s) for s in branch.body)
    uses_cat_order = "as_ordered" in body_src
    takes_labels = "categories[" in body_src
    if not uses_cat_order and not takes_labels:
        raise Unsupported("categorical statistics branch has an unknown shape: " + body_src[:120])
    return ("-- REGENERATED on every run by tools/translate_callsites.py from fastparquet/writer.py — do not edit\n"
            "namespace PqV.Gen.Stats\n"
            f"/-- categorical branch of `write_column` (line {branch.lineno}) orders labels by category position -/\n"
            f"def catUsesCategoryOrder : Bool := {'true' if uses_cat_order else 'false'}\n"
            "end PqV.Gen.Stats\n")


def thrift_calls(tree):
    """(struct name, [keyword names], marker) for every construction of a Thrift structure"""
    out = []
    for node in ast.walk(tree):
        if not isinstance(node, ast.Call):
            continue
        f = node.func
        name = None
        if isinstance(f, ast.Attribute) and isinstance(f.value, ast.Name) and f.value.id == "parquet_thrift" and f.attr[:1].isupper():
            name = f.attr
        elif isinstance(f, ast.Attribute) and f.attr == "from_fields" and node.args and isinstance(node.args[0], ast.Constant):
            name = node.args[0].value
        if name is None:
            continue
        kws, marker, i32list = [], "none", []
        ok = True
        for kw in node.keywords:
            if kw.arg is None:
                ok = False
                continue
            if kw.arg == "i32":
                v = kw.value
                truthy = isinstance(v, ast.Constant) and bool(v.value)
                marker = "all" if truthy else marker
            elif kw.arg == "i32list":
                if isinstance(kw.value, ast.List) and all(isinstance(e, ast.Constant) for e in kw.value.elts):
                    marker = "list"
                    i32list = [e.value for e in kw.value.elts]
                else:
                    ok = False
            elif kw.arg == "thrift_name":
                continue
            else:
                # a keyword whose value is the literal None does not put the field on the wire
                if isinstance(kw.value, ast.Constant) and kw.value.value is None:
                    continue
                kws.append(kw.arg)
        out.append((name, kws, marker, i32list, node.lineno, ok))
    return out


@register("CallSites")
def gen_callsites(repo):
    rows = []
    for fn in ("writer.py", "util.py", "api.py"):
        src = open(os.path.join(repo, "fastparquet", fn)).read()
        for (name, kws, marker, i32list, line, ok) in thrift_calls(ast.parse(src)):
            if not ok:
                raise Unsupported(f"{fn}:{line}: Thrift construction with **kwargs or a non-literal i32list")
            rows.append((fn, line, name, kws, marker, i32list))
    if not rows:
        raise Unsupported("no Thrift construction sites found")
    out = ["-- REGENERATED on every run by tools/translate_callsites.py from fastparquet/{writer,util,api}.py — do not edit",
           "namespace PqV.Gen.CallSites",
           "structure Site where",
           "  file : String",
           "  line : Nat",
           "  struct : String",
           "  fields : List String",
           "  marker : String          -- \"none\" | \"all\" (i32=True) | \"list\" (i32list=[...])",
           "  i32list : List Nat",
           "  deriving Repr",
           "def sites : List Site := ["]
    out.append(",\n".join('  ⟨"%s", %d, "%s", [%s], "%s", [%s]⟩' % (fn, line, name, ", ".join(f'"{k}"' for k in kws), marker,
                                                               ", ".join(map(str, i32list))) for fn, line, name, kws, marker, i32list in rows))
    out.append("]")
    out.append("end PqV.Gen.CallSites")
    return "\n".join(out) + "\n"


def _dtype_name(node):
    """np.dtype('int32') -> 'int32'; pd.Int8Dtype() -> 'Int8'; pd.BooleanDtype() -> 'boolean'"""
    if isinstance(node, ast.Call):
        f = node.func
        if isinstance(f, ast.Attribute) and f.attr == "dtype" and node.args and isinstance(node.args[0], ast.Constant):
            return str(node.args[0].value).lstrip("<")
        if isinstance(f, ast.Attribute) and f.attr.endswith("Dtype"):
            n = f.attr[:-5]
            return "boolean" if n == "Boolean" else n
    raise Unsupported("dtype expression " + ast.dump(node)[:80])


def _key_name(node):
    if isinstance(node, ast.Attribute):
        return node.attr
    if isinstance(node, ast.Constant):
        return str(node.value)
    if isinstance(node, ast.Call):
        return _dtype_name(node)
    raise Unsupported("table key " + ast.dump(node)[:80])


@register("Typemap")
def gen_typemap(repo):
    src = open(os.path.join(repo, "fastparquet", "converted_types.py")).read()
    tree = ast.parse(src)
    tables = {}
    for node in tree.body:
        if isinstance(node, ast.Assign) and len(node.targets) == 1 and isinstance(node.targets[0], ast.Name) \
                and node.targets[0].id in ("simple", "complex", "nullable", "pandas_nullable") and isinstance(node.value, ast.Dict):
            tables[node.targets[0].id] = [(_key_name(k), _dtype_name(v)) for k, v in zip(node.value.keys, node.value.values)]
    for t in ("simple", "complex", "nullable", "pandas_nullable"):
        if t not in tables:
            raise Unsupported(f"table {t} not found in converted_types.py")
    api = open(os.path.join(repo, "fastparquet", "api.py")).read()
    atree = ast.parse(api)
    cls = [n for n in atree.body if isinstance(n, ast.ClassDef) and n.name == "ParquetFile"][0]
    fn = [n for n in cls.body if isinstance(n, ast.FunctionDef) and n.name == "_dtypes"][0]
    fsrc = ast.unparse(fn)
    missing_means_nulls = "st.get(3) is None" in fsrc
    off_is_dtype = None
    for node in ast.walk(fn):
        if isinstance(node, ast.If) and "pandas_nulls" in ast.dump(node.test) and node.orelse:
            for st in node.orelse:
                if isinstance(st, ast.Assign):
                    v = st.value
                    off_is_dtype = isinstance(v, ast.Call) and isinstance(v.func, ast.Attribute) and v.func.attr == "dtype"
    if off_is_dtype is None:
        raise Unsupported("pandas_nulls-off branch of _dtypes not found")
    out = ["-- REGENERATED on every run by tools/translate_callsites.py from converted_types.py / api.py — do not edit",
           "namespace PqV.Gen.Typemap"]
    for t, rows in tables.items():
        out.append(f"def {t if t != 'complex' else 'complexT'} : List (String × String) := [" + ", ".join(f'("{k}", "{v}")' for k, v in rows) + "]")
    out.append(f"/-- `_dtypes`: statistics without a null count are treated as \"may have nulls\" -/")
    out.append(f"def missingNullCountMeansNulls : Bool := {'true' if missing_means_nulls else 'false'}")
    out.append(f"/-- `_dtypes`, pandas_nulls off: the promoted entry is a dtype object (not a float value) -/")
    out.append(f"def nullsOffIsDtype : Bool := {'true' if off_is_dtype else 'false'}")
    out.append("end PqV.Gen.Typemap")
    return "\n".join(out) + "\n"


@register("Nested")
def gen_nested(repo):
    """fails soft (the driver imports this module): an unrecognised source yields the facts the model was written for with
    `recognised := false`, which breaks `nested_facts_recognised_now` (C15) only, and the harness still runs"""
    try:
        return _gen_nested(repo).replace("end PqV.Gen.Nested", "def recognised : Bool := true\nend PqV.Gen.Nested")
    except Exception as e:  # noqa
        msg = str(e).replace('"', "'")[:200]
        return ("-- REGENERATED from fastparquet/core.py - the source was NOT recognised: " + msg + "\n"
                "namespace PqV.Gen.Nested\n"
                "def chainByZeros : Bool := true\ndef keyByLeafName : Bool := true\ndef recognised : Bool := false\n"
                "end PqV.Gen.Nested\n")


def _gen_nested(repo):
    """core.py: how `read_col` chains `_assemble_objects` over v1 pages, and how
    `read_row_group_arrays` decides which of the two MAP leaves is the key."""
    src = open(os.path.join(repo, "fastparquet", "core.py")).read()
    tree = ast.parse(src)
    fn = find_func(tree, "read_col")
    chain = None
    for node in ast.walk(fn):
        # row_idx[0] = 1 + encoding._assemble_objects(...)
        if isinstance(node, ast.Assign) and "row_idx" in ast.unparse(node.targets[0]) and "_assemble_objects" in ast.unparse(node.value):
            v = ast.unparse(node.value).replace(" ", "")
            if v.startswith("1+encoding._assemble_objects("):
                chain = ("ret", node.lineno)
        # row_idx[0] += int((rep == 0).sum())
        if isinstance(node, ast.AugAssign) and isinstance(node.op, ast.Add) and "row_idx" in ast.unparse(node.target):
            v = ast.unparse(node.value).replace(" ", "")
            if v in ("int((rep==0).sum())", "(rep==0).sum()"):
                chain = ("zeros", node.lineno)
    if chain is None:
        raise Unsupported("read_col: the statement that advances row_idx after _assemble_objects has an unknown shape")
    call = [n for n in ast.walk(fn) if isinstance(n, ast.Call) and ast.unparse(n.func).endswith("_assemble_objects")]
    if len(call) != 1:
        raise Unsupported("read_col: expected exactly one _assemble_objects call")
    args = [ast.unparse(a).replace(" ", "") for a in call[0].args]
    if args != ["assign", "defi", "rep", "val", "dic", "d", "null", "null_val", "max_defi", "row_idx[0]"]:
        raise Unsupported("read_col: _assemble_objects argument list changed: " + ",".join(args))
    fn2 = find_func(tree, "read_row_group_arrays")
    keysel = None
    for node in ast.walk(fn2):
        if isinstance(node, ast.If) and "'key'" in ast.unparse(node.test) and "path_in_schema" in ast.unparse(node.test):
            t = ast.unparse(node.test).replace(" ", "")
            if t == "column.meta_data.path_in_schema[0]=='key'":
                keysel = ("first", node.lineno)
            elif t == "column.meta_data.path_in_schema[-1]=='key'":
                keysel = ("last", node.lineno)
    if keysel is None:
        raise Unsupported("read_row_group_arrays: the test that tells the key leaf from the value leaf has an unknown shape")
    return ("-- REGENERATED on every run by tools/translate_callsites.py from fastparquet/core.py — do not edit\n"
            "namespace PqV.Gen.Nested\n"
            f"/-- `read_col` (line {chain[1]}) advances the row index by the number of records STARTED in the page\n"
            "    (`true`) or sets it to 1 + the kernel's return value (`false`) -/\n"
            f"def chainByZeros : Bool := {'true' if chain[0] == 'zeros' else 'false'}\n"
            f"/-- `read_row_group_arrays` (line {keysel[1]}) recognises the key leaf by the LAST path component -/\n"
            f"def keyByLeafName : Bool := {'true' if keysel[0] == 'last' else 'false'}\n"
            "end PqV.Gen.Nested\n")


@register("SkipDef")
def gen_skipdef(repo):
    """core.skip_definition_bytes (the reader's shortcut over the definition levels of fastparquet's own
    null-free pages) and the layout writer.make_definitions gives such a block: the constants of both."""
    src = open(os.path.join(repo, "fastparquet", "core.py")).read()
    fn = find_func(ast.parse(src), "skip_definition_bytes")
    body = [n for n in fn.body if not (isinstance(n, ast.Expr) and isinstance(n.value, ast.Constant))]
    try:
        seek0 = body[0].value
        assert ast.unparse(seek0.func).endswith(".seek") and ast.unparse(seek0.args[1]) == "1"
        base = int(ast.unparse(seek0.args[0]))
        asg = body[1]
        assert isinstance(asg, ast.Assign) and isinstance(asg.value, ast.BinOp) and isinstance(asg.value.op, ast.FloorDiv)
        assert ast.unparse(asg.value.left) == fn.args.args[1].arg
        div = int(ast.unparse(asg.value.right))
        loop = body[2]
        assert isinstance(loop, ast.While) and ast.unparse(loop.test) == ast.unparse(asg.targets[0])
        step = int(ast.unparse(loop.body[0].value.args[0]))
        aug = loop.body[1]
        assert isinstance(aug, ast.AugAssign) and isinstance(aug.op, ast.FloorDiv)
        shrink = int(ast.unparse(aug.value))
        assert len(body) == 3 and len(loop.body) == 2
    except Exception as e:  # noqa
        raise Unsupported("skip_definition_bytes has an unknown shape: " + type(e).__name__)
    wsrc = open(os.path.join(repo, "fastparquet", "writer.py")).read()
    wfn = find_func(ast.parse(wsrc), "make_definitions")
    branch = [n for n in wfn.body if isinstance(n, ast.If) and ast.unparse(n.test) == "no_nulls"]
    if len(branch) != 1:
        raise Unsupported("make_definitions: the no_nulls branch was not found")
    text = "\n".join(ast.unparse(s) for s in branch[0].body)
    import re as _re
    m = _re.search(r"encode_unsigned_varint\(l << (\d+), temp\)", text)
    m2 = _re.search(r"temp\.write_byte\((\d+)\)", text)
    m3 = _re.search(r"struct\.pack\('<I', temp\.tell\(\)\) \+ temp\.so_far\(\)", text)
    if not (m and m2 and m3) or text.count("write_byte") != 1:
        raise Unsupported("make_definitions: the null-free block has an unknown layout: " + text[:120])
    return ("-- REGENERATED on every run by tools/translate_callsites.py from fastparquet/core.py and writer.py — do not edit\n"
            "namespace PqV.Gen.SkipDef\n"
            f"/-- `skip_definition_bytes` (core.py line {fn.lineno}): `seek(base, 1); n = num // div; while n: seek(step, 1); n //= shrink` -/\n"
            f"def base : Nat := {base}\ndef div : Nat := {div}\ndef step : Nat := {step}\ndef shrink : Nat := {shrink}\n"
            f"/-- `make_definitions` (writer.py line {wfn.lineno}), null-free v1 block: 4-byte length, varint(l << shift), one byte `value` -/\n"
            f"def lenPrefix : Nat := 4\ndef shift : Nat := {m.group(1)}\ndef value : Nat := {m2.group(1)}\n"
            "end PqV.Gen.SkipDef\n")


@register("SchemaLevels")
def gen_schemalevels(repo):
    """schema.py SchemaHelper: which repetition types make a path element count for `is_required`,
    `max_definition_level` and `max_repetition_level` (REQUIRED = 0, OPTIONAL = 1, REPEATED = 2)."""
    src = open(os.path.join(repo, "fastparquet", "schema.py")).read()
    tree = ast.parse(src)
    code = {"REQUIRED": 0, "OPTIONAL": 1, "REPEATED": 2}

    def test_of(fname, effect):
        """the single `if <x>.repetition_type (==|!=) FieldRepetitionType.<NAME>:` of the loop, with its effect"""
        fns = [n for n in ast.walk(tree) if isinstance(n, ast.FunctionDef) and n.name == fname]
        if len(fns) != 1:
            raise Unsupported(f"schema.py: expected exactly one function {fname}")
        fn = fns[0]
        loops = [n for n in ast.walk(fn) if isinstance(n, ast.For)]
        if len(loops) != 1:
            raise Unsupported(f"{fname}: expected one loop over the path")
        ifs = [n for n in ast.walk(loops[0]) if isinstance(n, ast.If)]
        if len(ifs) != 1:
            raise Unsupported(f"{fname}: expected one test inside the loop")
        t = ifs[0].test
        if not (isinstance(t, ast.Compare) and len(t.ops) == 1 and isinstance(t.ops[0], (ast.Eq, ast.NotEq))
                and ast.unparse(t.left).endswith(".repetition_type")
                and ast.unparse(t.comparators[0]).startswith("parquet_thrift.FieldRepetitionType.")):
            raise Unsupported(f"{fname}: the repetition-type test has an unknown shape: {ast.unparse(t)}")
        name = ast.unparse(t.comparators[0]).rsplit(".", 1)[1]
        if name not in code:
            raise Unsupported(f"{fname}: unknown repetition type {name}")
        body = ast.unparse(ifs[0].body[0]).replace(" ", "")
        if effect == "false":
            if body != "required=False":
                raise Unsupported(f"{fname}: the test no longer sets required = False ({body})")
            if "return required" not in ast.unparse(fn) or "required = True" not in ast.unparse(fn):
                raise Unsupported(f"{fname}: initial value / return of `required` changed")
        elif body != "max_level+=1":
            raise Unsupported(f"{fname}: the test no longer increments max_level ({body})")
        op = "==" if isinstance(t.ops[0], ast.Eq) else "!="
        return f"rt {op} {code[name]}", ifs[0].lineno
    # The driver imports this module (stream nested.levels), so it must always compile: a function whose shape is not
    # recognised gets the test `false` and `recognised := false`, which fails `level_tests_now` and the correspondence
    # while the rest of the check (certified nested files on the real code) keeps running.
    notes = []

    def soft(fname, effect):
        try:
            return test_of(fname, effect)
        except Unsupported as e:
            notes.append(str(e))
            return "false", 0
    rq, l1 = soft("is_required", "false")
    rp, l2 = soft("max_repetition_level", "inc")
    df, l3 = soft("max_definition_level", "inc")
    return ("-- REGENERATED on every run by tools/translate_callsites.py from fastparquet/schema.py — do not edit\n"
            "namespace PqV.Gen.SchemaLevels\n"
            "/-! repetition types: REQUIRED = 0, OPTIONAL = 1, REPEATED = 2 -/\n"
            f"/-- `is_required` (line {l1}): a path element for which this holds makes the path not required -/\n"
            f"def reqTest (rt : Nat) : Bool := {rq}\n"
            f"/-- `max_repetition_level` (line {l2}): a path element for which this holds adds a repetition level -/\n"
            f"def repTest (rt : Nat) : Bool := {rp}\n"
            f"/-- `max_definition_level` (line {l3}): a path element for which this holds adds a definition level -/\n"
            f"def defTest (rt : Nat) : Bool := {df}\n"
            f"/-- every function had the shape the translator knows{'' if not notes else ' — NOT SO: ' + '; '.join(notes).replace(chr(10), ' ')[:300]} -/\n"
            f"def recognised : Bool := {'true' if not notes else 'false'}\n"
            "def isRequired (path : List Nat) : Bool := path.all (fun rt => !reqTest rt)\n"
            "def maxRep (path : List Nat) : Nat := (path.filter repTest).length\n"
            "def maxDef (path : List Nat) : Nat := (path.filter defTest).length\n"
            "end PqV.Gen.SchemaLevels\n")


@register("PartNumbering")
def gen_partnumbering(repo):
    """writer.find_max_part: the number of the first new part file of an append, as an expression over the
    set `pids` of part numbers referenced by the metadata; and which row-group list write_multi hands it."""
    src = open(os.path.join(repo, "fastparquet", "writer.py")).read()
    tree = ast.parse(src)
    fn = find_func(tree, "find_max_part")
    rets = [ast.unparse(n.value).replace(" ", "") for n in ast.walk(fn) if isinstance(n, ast.Return) and n.value is not None]
    assigns = [ast.unparse(n).replace(" ", "") for n in ast.walk(fn) if isinstance(n, ast.Assign)]
    if assigns != ["pids=part_ids(row_groups)"]:
        raise Unsupported("find_max_part: expected the single assignment pids = part_ids(row_groups), found " + ";".join(assigns))
    ifs = [n for n in ast.walk(fn) if isinstance(n, ast.If)]
    if len(ifs) == 1 and ast.unparse(ifs[0].test) == "pids" and rets == ["max(pids)+1", "0"]:
        rule = "maxPlusOne"
    elif not ifs and len(rets) == 1:
        rule = "other:" + rets[0]
    else:
        rule = "other:" + "|".join(rets)
    wm = find_func(tree, "write_multi")
    calls = [ast.unparse(n).replace(" ", "") for n in ast.walk(wm) if isinstance(n, ast.Call) and ast.unparse(n.func) == "find_max_part"]
    arg = calls[0] if len(calls) == 1 else "other:" + "|".join(calls)
    offs = [ast.unparse(n).replace(" ", "") for n in ast.walk(wm) if isinstance(n, ast.Assign) and ast.unparse(n.targets[0]) == "i_offset"]
    return ("-- REGENERATED on every run by tools/translate_callsites.py from fastparquet/writer.py — do not edit\n"
            "namespace PqV.Gen.PartNumbering\n"
            f"/-- `find_max_part` (line {fn.lineno}): `maxPlusOne` = `max(pids) + 1 if pids else 0` -/\n"
            f"def rule : String := \"{rule}\"\n"
            "/-- how `write_multi` obtains the first new part number -/\n"
            f"def offsetAssignments : List String := [{', '.join(chr(34) + o + chr(34) for o in offs)}]\n"
            f"def call : String := \"{arg}\"\n"
            "end PqV.Gen.PartNumbering\n")


@register("KvMerge")
def gen_kvmerge(repo):
    """util.update_custom_metadata: the statements of the merge loop, branch by branch (whitespace-free text)."""
    src = open(os.path.join(repo, "fastparquet", "util.py")).read()
    fn = find_func(ast.parse(src), "update_custom_metadata")
    loops = [n for n in fn.body if isinstance(n, ast.For)]
    if len(loops) != 1:
        raise Unsupported("update_custom_metadata: expected one loop over custom_metadata.items()")
    loop = loops[0]
    outer = [n for n in loop.body if isinstance(n, ast.If)]
    if len(outer) != 1:
        raise Unsupported("update_custom_metadata: expected one if/elif chain in the loop")
    top = outer[0]
    u = lambda n: ast.unparse(n).replace(" ", "").replace("\n", ";")   # noqa: E731
    found_cond = u(top.test)
    inner = [n for n in top.body if isinstance(n, ast.If)]
    if len(inner) != 1:
        raise Unsupported("update_custom_metadata: expected remove/replace branches under the found-branch")
    remove_cond = u(inner[0].test)
    remove = [u(x) for x in inner[0].body]
    replace = [u(x) for x in inner[0].orelse]
    if len(top.orelse) != 1 or not isinstance(top.orelse[0], ast.If):
        raise Unsupported("update_custom_metadata: expected an elif branch for new keys")
    add_cond = u(top.orelse[0].test)
    add = [u(x) for x in top.orelse[0].body]
    q = lambda l: "[" + ", ".join(chr(34) + x.replace(chr(34), "'") + chr(34) for x in l) + "]"   # noqa: E731
    return ("-- REGENERATED on every run by tools/translate_callsites.py from fastparquet/util.py — do not edit\n"
            "namespace PqV.Gen.KvMerge\n"
            f"def foundCond : String := \"{found_cond}\"\n"
            f"def removeCond : String := \"{remove_cond}\"\n"
            f"def removeStmts : List String := {q(remove)}\n"
            f"def replaceStmts : List String := {q(replace)}\n"
            f"def addCond : String := \"{add_cond}\"\n"
            f"def addStmts : List String := {q(add)}\n"
            "end PqV.Gen.KvMerge\n")


@register("HandleState")
def gen_handlestate(repo):
    """api.ParquetFile: the state a derived handle (`__getitem__`) and a pickled / copied handle (`__getstate__`)
    carry over from the handle they come from, as `key=expression` strings."""
    src = open(os.path.join(repo, "fastparquet", "api.py")).read()
    tree = ast.parse(src)
    cls = [n for n in tree.body if isinstance(n, ast.ClassDef) and n.name == "ParquetFile"][0]

    def method(name):
        ms = [n for n in cls.body if isinstance(n, ast.FunctionDef) and n.name == name]
        if len(ms) != 1:
            raise Unsupported(f"ParquetFile.{name} not found")
        return ms[0]

    def dict_items(d):
        if not isinstance(d, ast.Dict) or not all(isinstance(k, ast.Constant) for k in d.keys):
            raise Unsupported("state is not a dict literal with constant keys")
        return [f"{k.value}={ast.unparse(v).replace(' ', '')}" for k, v in zip(d.keys, d.values)]
    gs = method("__getstate__")
    rets = [n.value for n in ast.walk(gs) if isinstance(n, ast.Return)]
    if len(rets) != 1:
        raise Unsupported("__getstate__: expected one return")
    pick = dict_items(rets[0])
    gi = method("__getitem__")
    calls = [n for n in ast.walk(gi) if isinstance(n, ast.Call) and ast.unparse(n.func).endswith(".__setstate__")]
    if len(calls) != 1 or len(calls[0].args) != 1:
        raise Unsupported("__getitem__: expected one __setstate__ call with a dict")
    derived = dict_items(calls[0].args[0])
    q = lambda l: "[" + ", ".join(chr(34) + x.replace(chr(34), "'") + chr(34) for x in l) + "]"   # noqa: E731
    return ("-- REGENERATED on every run by tools/translate_callsites.py from fastparquet/api.py — do not edit\n"
            "namespace PqV.Gen.HandleState\n"
            f"/-- `ParquetFile.__getstate__` (line {gs.lineno}) -/\n"
            f"def pickled : List String := {q(pick)}\n"
            f"/-- the state `ParquetFile.__getitem__` (line {gi.lineno}) hands to the derived handle -/\n"
            f"def derived : List String := {q(derived)}\n"
            "end PqV.Gen.HandleState\n")


@register("ColumnFilterShape")
def gen_columnfiltershape(repo):
    """api.ParquetFile._column_filter: the control skeleton the model Impl.RowFilter.columnFilter assumes."""
    src = open(os.path.join(repo, "fastparquet", "api.py")).read()
    tree = ast.parse(src)
    cls = [n for n in tree.body if isinstance(n, ast.ClassDef) and n.name == "ParquetFile"][0]
    fns = [n for n in cls.body if isinstance(n, ast.FunctionDef) and n.name == "_column_filter"]
    if len(fns) != 1:
        raise Unsupported("ParquetFile._column_filter not found")
    fn = fns[0]
    u = lambda n: ast.unparse(n).replace(" ", "")   # noqa: E731
    # flat list of conditions is wrapped into one AND group before the loop
    flat_wrap = any(isinstance(n, ast.If) and u(n.test) == "filtersandisinstance(filters[0][0],str)" and
                    [u(x) for x in n.body] == ["filters=[filters]"] for n in fn.body)
    loops = [n for n in fn.body if isinstance(n, ast.For)]
    if len(loops) != 1 or u(loops[0].target) != "or_part":
        raise Unsupported("_column_filter: expected one loop `for or_part in filters`")
    top = [n for n in loops[0].body if isinstance(n, ast.If)]
    if len(top) != 1 or u(top[0].test) != "isinstance(or_part[0],str)":
        raise Unsupported("_column_filter: expected the single-condition / AND-group split")
    single, group = top[0].body, top[0].orelse

    def skip_kind(stmts):
        """what happens to a condition on a partition column: "continue" (skipped at row level), or "rowgroup-term:<op>" (evaluated per
        row group by _partition_term, merged with <op>, and only then `continue`)"""
        for n in ast.walk(ast.Module(body=stmts, type_ignores=[])):
            if isinstance(n, ast.If) and u(n.test) == "nameinself.cats":
                body = n.body
                if len(body) == 1 and isinstance(body[0], ast.Continue):
                    return "continue"
                if len(body) == 2 and isinstance(body[1], ast.Continue) and isinstance(body[0], ast.If) and u(body[0].test) == "rgsisnotNone" \
                        and len(body[0].body) == 1 and isinstance(body[0].body[0], ast.AugAssign) and "self._partition_term(rgs," in u(body[0].body[0].value):
                    return "rowgroup-term:" + type(body[0].body[0].op).__name__
                return "other:" + type(body[0]).__name__.lower()
        return "none"
    # the AND accumulator is created inside the OR loop, filled in an inner loop, then OR-ed into the result
    g = [u(x).split("\n")[0] for x in group]
    init_inside = bool(group) and u(group[0]) == "and_part=np.ones(len(df),dtype=bool)"
    inner = [n for n in group if isinstance(n, ast.For)]
    merges = [u(x) for x in group if isinstance(x, ast.AugAssign)]
    inner_ops = sorted({type(n.op).__name__ for l in inner for n in ast.walk(l) if isinstance(n, ast.AugAssign)})
    single_ops = sorted({type(n.op).__name__ for st in single for n in ast.walk(st) if isinstance(n, ast.AugAssign)})
    # _partition_term: one flag per row group from the pruning's own test, repeated over the row group's rows
    pt = [n for n in cls.body if isinstance(n, ast.FunctionDef) and n.name == "_partition_term"]
    pt_shape = "absent"
    if pt:
        body = [u(x) for x in pt[0].body if not (isinstance(x, ast.Expr) and isinstance(x.value, ast.Constant))]
        pt_shape = "pruning-test-per-row-group" if body == [
            "keep=[notfilter_out_cats(rg,[cond],self.partition_meta)forrginrgs]",
            "returnnp.repeat(np.array(keep,dtype=bool),[rg.num_rowsforrginrgs])"] else "other"
    out_init = any(u(n) == "out=np.zeros(len(df),dtype=bool)" for n in fn.body)
    b = lambda x: "true" if x else "false"   # noqa: E731
    return ("-- REGENERATED on every run by tools/translate_callsites.py from fastparquet/api.py — do not edit\n"
            "namespace PqV.Gen.ColumnFilterShape\n"
            f"/-- `_column_filter` (line {fn.lineno}) -/\n"
            f"def flatListIsOneAndGroup : Bool := {b(flat_wrap)}\n"
            f"def resultStartsAllFalse : Bool := {b(out_init)}\n"
            f"def andAccumulatorPerGroup : Bool := {b(init_inside)}\n"
            f"def skipPartitionInSingle : String := \"{skip_kind(single)}\"\n"
            f"def skipPartitionInGroup : String := \"{skip_kind(group)}\"\n"
            f"def groupMerges : List String := [{', '.join(chr(34) + m + chr(34) for m in merges)}]\n"
            f"def innerOps : List String := [{', '.join(chr(34) + m + chr(34) for m in inner_ops)}]\n"
            f"def singleOps : List String := [{', '.join(chr(34) + m + chr(34) for m in single_ops)}]\n"
            f"def partitionTerm : String := \"{pt_shape}\"\n"
            "end PqV.Gen.ColumnFilterShape\n")


@register("PerCall")
def gen_percall(repo):
    """The per-call resources the concurrency property names: a file object per read call, a private copy of the file
    metadata per part file, scratch buffers allocated inside the functions that fill them."""
    api = ast.parse(open(os.path.join(repo, "fastparquet", "api.py")).read())
    wr = ast.parse(open(os.path.join(repo, "fastparquet", "writer.py")).read())
    u = lambda n: ast.unparse(n).replace(" ", "")   # noqa: E731
    cls = [n for n in api.body if isinstance(n, ast.ClassDef) and n.name == "ParquetFile"][0]
    tp = [n for n in cls.body if isinstance(n, ast.FunctionDef) and n.name == "to_pandas"]
    if len(tp) != 1:
        raise Unsupported("ParquetFile.to_pandas not found")
    opens = [u(n) for n in ast.walk(tp[0]) if isinstance(n, ast.Assign) and "self.open(" in u(n.value)]
    # the opened file must be bound to a local name, never stored on the handle
    file_local = opens == ["infile=self.open(self.fn,'rb')"]
    attr_files = [u(n) for n in ast.walk(tp[0]) if isinstance(n, ast.Assign) and any(u(t).startswith("self.") for t in n.targets)
                  and ("open(" in u(n.value) or "infile" in u(n.value))]
    cols_copy = any(isinstance(n, ast.If) and u(n.test) == "columnsisnotNone" and [u(x) for x in n.body] == ["columns=columns[:]"]
                    for n in ast.walk(tp[0]))
    mp = find_func(wr, "make_part_file")
    # every assignment to an attribute of `fmd` must come after `fmd = copy(fmd)` in the same block
    copied_before_mutation = True
    seen_mut = False
    for blk in [n for n in ast.walk(mp) if isinstance(n, (ast.If, ast.With, ast.FunctionDef))]:
        for body in (getattr(blk, "body", []), getattr(blk, "orelse", [])):
            copied = False
            for st in body:
                if isinstance(st, ast.Assign) and u(st) == "fmd=copy(fmd)":
                    copied = True
                if isinstance(st, ast.Assign) and any(u(t).startswith("fmd.") for t in st.targets):
                    seen_mut = True
                    if not copied:
                        copied_before_mutation = False
    md = find_func(wr, "make_definitions")
    scratch_local = any(isinstance(n, ast.Assign) and u(n) == "buf=np.empty(10,dtype=np.uint8)" for n in md.body) and \
        any(isinstance(n, ast.Assign) and u(n) == "temp=NumpyIO(buf)" for n in md.body)
    ed = find_func(wr, "encode_dict")
    scratch_local2 = any(isinstance(n, ast.Assign) and u(n) == "buf=np.empty(10,dtype=np.uint8)" for n in ed.body)
    # module-level arrays / bytearrays in the writer and the reader
    mod_bufs = []
    for name, tree in (("writer", wr), ("api", api), ("core", ast.parse(open(os.path.join(repo, "fastparquet", "core.py")).read()))):
        for n in tree.body:
            if isinstance(n, ast.Assign) and isinstance(n.value, ast.Call) and u(n.value.func) in ("np.empty", "np.zeros", "bytearray", "np.ones"):
                mod_bufs.append(name + "." + u(n.targets[0]))
    b = lambda x: "true" if x else "false"   # noqa: E731
    return ("-- REGENERATED on every run by tools/translate_callsites.py from fastparquet/api.py, writer.py, core.py — do not edit\n"
            "namespace PqV.Gen.PerCall\n"
            f"def fileObjectPerReadCall : Bool := {b(file_local and not attr_files)}\n"
            f"def columnListCopied : Bool := {b(cols_copy)}\n"
            f"def partFileCopiesMetadataBeforeChangingIt : Bool := {b(copied_before_mutation and seen_mut)}\n"
            f"def levelScratchPerCall : Bool := {b(scratch_local)}\n"
            f"def dictScratchPerCall : Bool := {b(scratch_local2)}\n"
            f"def moduleLevelBuffers : List String := [{', '.join(chr(34) + m + chr(34) for m in mod_bufs)}]\n"
            "end PqV.Gen.PerCall\n")


@register("RangeIndex")
def gen_rangeindex(repo):
    """api.py, ParquetFile.pre_allocate: the RangeIndex regenerated from the pandas metadata
    (`RangeIndex(start=ic['start'], stop=<expr>, step=ic['step'])[:size]`) - the `stop` expression, as a Lean function."""
    import ast
    src = open(os.path.join(repo, "fastparquet", "api.py")).read()
    tree = ast.parse(src)
    calls = [n for n in ast.walk(tree) if isinstance(n, ast.Call) and getattr(n.func, "id", getattr(n.func, "attr", None)) == "RangeIndex"
             and any(k.arg == "stop" for k in n.keywords)]
    if len(calls) != 1:
        raise ValueError(f"expected one RangeIndex(start=, stop=, step=) call in api.py, found {len(calls)}")
    kw = {k.arg: k.value for k in calls[0].keywords}

    def is_ic(node, key):
        return (isinstance(node, ast.Subscript) and isinstance(node.value, ast.Name) and node.value.id == "ic"
                and isinstance(node.slice, ast.Constant) and node.slice.value == key)

    if not is_ic(kw.get("start"), "start") or not is_ic(kw.get("step"), "step"):
        raise ValueError("RangeIndex start/step are not ic['start'] / ic['step']")

    def tr(node):
        if is_ic(node, "start"):
            return "start"
        if is_ic(node, "step"):
            return "step"
        if isinstance(node, ast.Name) and node.id == "size":
            return "(size : Int)"
        if isinstance(node, ast.Constant) and isinstance(node.value, int):
            return f"({node.value} : Int)"
        if isinstance(node, ast.BinOp) and isinstance(node.op, (ast.Add, ast.Sub, ast.Mult)):
            op = {ast.Add: "+", ast.Sub: "-", ast.Mult: "*"}[type(node.op)]
            return f"({tr(node.left)} {op} {tr(node.right)})"
        raise ValueError("unsupported expression in RangeIndex stop: " + ast.dump(node)[:120])

    # the slice applied to the regenerated index: [:size]
    sliced = any(isinstance(n, ast.Subscript) and n.value is calls[0] and isinstance(n.slice, ast.Slice) and n.slice.lower is None
                 and isinstance(n.slice.upper, ast.Name) and n.slice.upper.id == "size" for n in ast.walk(tree))
    return ("-- REGENERATED from fastparquet/api.py (pre_allocate: the RangeIndex rebuilt from pandas metadata) - do not edit\n"
            "namespace PqV.Gen.RangeIndex\n"
            f"def stopExpr (start step : Int) (size : Nat) : Int := {tr(kw['stop'])}\n"
            f"def slicedToSize : Bool := {'true' if sliced else 'false'}\n"
            "end PqV.Gen.RangeIndex\n")


def _gen_writelayout(repo):
    """writer.encode_dict (width byte, run header, zero padding) and the trailer of a v1 page in write_column, as Lean functions over Int"""
    src = open(os.path.join(repo, "fastparquet", "writer.py")).read()
    tree = ast.parse(src)
    fns = {n.name: n for n in ast.walk(tree) if isinstance(n, ast.FunctionDef)}
    ed = fns["encode_dict"]
    env = {}

    def tr(node):
        s = ast.unparse(node)
        if s == "len(data)":
            return "(n : Int)"
        if s == "data.values.dtype.itemsize":
            return "(item : Int)"
        if isinstance(node, ast.Name) and node.id in env:
            return env[node.id]
        if isinstance(node, ast.Constant) and isinstance(node.value, int) and not isinstance(node.value, bool):
            return f"({node.value} : Int)"
        if isinstance(node, ast.UnaryOp) and isinstance(node.op, ast.USub):
            return f"(-{tr(node.operand)})"
        if isinstance(node, ast.BinOp):
            # (E << 1) | 1  ==  E * 2 + 1
            if isinstance(node.op, ast.BitOr) and isinstance(node.right, ast.Constant) and node.right.value == 1 and \
               isinstance(node.left, ast.BinOp) and isinstance(node.left.op, ast.LShift) and isinstance(node.left.right, ast.Constant) and node.left.right.value >= 1:
                return f"(({tr(node.left.left)} * {2 ** node.left.right.value}) + 1)"
            if isinstance(node.op, ast.LShift) and isinstance(node.right, ast.Constant):
                return f"({tr(node.left)} * {2 ** node.right.value})"
            op = {ast.Add: "+", ast.Sub: "-", ast.Mult: "*", ast.FloorDiv: "/", ast.Mod: "%"}.get(type(node.op))
            if op:
                return f"({tr(node.left)} {op} {tr(node.right)})"
        raise ValueError("unsupported expression in encode_dict: " + s[:80])

    header = None
    wbyte = None
    ret = None
    for st in ed.body:
        if isinstance(st, ast.Assign) and len(st.targets) == 1 and isinstance(st.targets[0], ast.Name) and st.targets[0].id in ("width", "bit_packed_count", "pad"):
            env[st.targets[0].id] = tr(st.value)
        elif isinstance(st, ast.Expr) and isinstance(st.value, ast.Call):
            f = ast.unparse(st.value.func)
            if f.endswith("encode_unsigned_varint"):
                header = tr(st.value.args[0])
            elif f.endswith("write_byte"):
                wbyte = tr(st.value.args[0])
        elif isinstance(st, ast.Return):
            ret = ast.unparse(st.value)
    for k in ("width", "bit_packed_count", "pad"):
        if k not in env:
            raise ValueError(f"encode_dict no longer assigns {k}")
    if header is None or wbyte is None:
        raise ValueError("encode_dict: run header / width byte call not found")
    if ret != "bytes(o.so_far()) + data.values.tobytes() + b'\\x00' * pad":
        raise ValueError("encode_dict returns " + str(ret)[:100])
    # v1 page: b"".join([repetition_data, definition_data, encode[encoding](data, selement), <k> * b'\x00'])
    wc = fns["write_column"]
    trailer = None
    for n in ast.walk(wc):
        if isinstance(n, ast.Call) and ast.unparse(n.func) == "b''.join" and n.args and isinstance(n.args[0], ast.List):
            elts = [ast.unparse(e) for e in n.args[0].elts]
            if elts[:3] == ["repetition_data", "definition_data", "encode[encoding](data, selement)"] and len(elts) == 4:
                last = n.args[0].elts[3]
                if isinstance(last, ast.BinOp) and isinstance(last.op, ast.Mult) and ast.unparse(last.right) == "b'\\x00'" and isinstance(last.left, ast.Constant):
                    trailer = last.left.value
    if trailer is None:
        raise ValueError("write_column: the v1 page body is no longer b''.join([repetition_data, definition_data, values, k * b'\\x00'])")
    # make_definitions: the two level-block layouts
    md = fns["make_definitions"]
    top = [n for n in md.body if isinstance(n, ast.If) and ast.unparse(n.test) == "no_nulls"]
    if len(top) != 1:
        raise ValueError("make_definitions: expected one `if no_nulls:` split")
    def calls(stmts, suffix):
        return [n for st in stmts for n in ast.walk(st) if isinstance(n, ast.Call) and ast.unparse(n.func).endswith(suffix)]
    def tr_def(node, names):
        s_ = ast.unparse(node)
        if s_ in names:
            return names[s_]
        if isinstance(node, ast.Constant) and isinstance(node.value, int):
            return f"({node.value} : Int)"
        if isinstance(node, ast.BinOp):
            if isinstance(node.op, ast.BitOr) and isinstance(node.right, ast.Constant) and node.right.value == 1 and \
               isinstance(node.left, ast.BinOp) and isinstance(node.left.op, ast.LShift) and isinstance(node.left.right, ast.Constant):
                return f"(({tr_def(node.left.left, names)} * {2 ** node.left.right.value}) + 1)"
            if isinstance(node.op, ast.LShift) and isinstance(node.right, ast.Constant):
                return f"({tr_def(node.left, names)} * {2 ** node.right.value})"
            op = {ast.Add: "+", ast.Sub: "-", ast.Mult: "*", ast.FloorDiv: "/"}.get(type(node.op))
            if op:
                return f"({tr_def(node.left, names)} {op} {tr_def(node.right, names)})"
        raise ValueError("unsupported expression in make_definitions: " + s_[:80])
    nn_body, n_body = top[0].body, top[0].orelse
    # no nulls: l = len(data); varint(l << 1); write_byte(1); '<I' prefix of temp.tell() in v1
    h1 = calls(nn_body, "encode_unsigned_varint")
    b1 = calls(nn_body, "write_byte")
    p1 = [c for c in calls(nn_body, "struct.pack")]
    if len(h1) != 1 or len(b1) != 1 or len(p1) != 1:
        raise ValueError("make_definitions (no nulls): run header / value byte / length prefix not found")
    rle_header = tr_def(h1[0].args[0], {"l": "(n : Int)", "len(data)": "(n : Int)"})
    rle_value = tr_def(b1[0].args[0], {})
    if ast.unparse(p1[0].args[0]) != "'<I'" or ast.unparse(p1[0].args[1]) != "temp.tell()":
        raise ValueError("make_definitions (no nulls): the v1 prefix is no longer struct.pack('<I', temp.tell())")
    # nulls: out = encode_plain(notnull bits); varint(len(out) << 1 | 1); '<I' prefix of len(head) + len(out) in v1
    h2 = calls(n_body, "encode_unsigned_varint")
    p2 = calls(n_body, "struct.pack")
    if len(h2) != 1 or len(p2) != 1:
        raise ValueError("make_definitions (nulls): run header / length prefix not found")
    bp_header = tr_def(h2[0].args[0], {"len(out)": "(m : Int)"})
    if ast.unparse(p2[0].args[0]) != "'<I'" or ast.unparse(p2[0].args[1]).replace(" ", "") != "len(head)+len(out)":
        raise ValueError("make_definitions (nulls): the v1 prefix is no longer struct.pack('<I', len(head) + len(out))")
    prefixed = [ast.unparse(n.test) for st in (nn_body + n_body) for n in ast.walk(st) if isinstance(n, ast.If)]
    if prefixed != ["datapage_version == 1", "datapage_version == 1"]:
        raise ValueError("make_definitions: the length prefix is no longer written exactly when datapage_version == 1")
    return ("-- REGENERATED from fastparquet/writer.py (encode_dict, make_definitions, write_column) - do not edit\n"
            "namespace PqV.Gen.WriteLayout\n"
            f"def defRleHeader (n : Nat) : Int := {rle_header}\n"
            f"def defRleValue : Int := {rle_value}\n"
            f"def defBpHeader (m : Nat) : Int := {bp_header}\n"
            "def defPrefixBytes : Nat := 4\n"
            f"def dictWidthByte (item : Nat) : Int := {wbyte.replace('width', env['width']) if wbyte == 'width' else wbyte}\n"
            f"def dictHeader (n item : Nat) : Int := {header}\n"
            f"def dictPad (n item : Nat) : Int := {env['pad']}\n"
            f"def v1Trailer : Nat := {trailer}\n"
            "end PqV.Gen.WriteLayout\n")


@register("WriteLayout")
def gen_writelayout(repo):
    """fails soft: the driver imports this module, so an unrecognised source yields the layout the model was written for with
    `recognised := false` - which breaks `write_layout_now` (C02, C01) only"""
    try:
        return _gen_writelayout(repo).replace("end PqV.Gen.WriteLayout", "def recognised : Bool := true\ndef note : String := \"\"\nend PqV.Gen.WriteLayout")
    except Exception as e:  # noqa
        msg = str(e).replace('"', "'").replace("\\", "/")[:200]
        return ("-- REGENERATED from fastparquet/writer.py - the source was NOT recognised: " + msg + "\n"
                "namespace PqV.Gen.WriteLayout\n"
                "def dictWidthByte (item : Nat) : Int := (item : Int) * 8\n"
                "def dictHeader (n item : Nat) : Int := ((n : Int) + 7) / 8 * 2 + 1\n"
                "def dictPad (n item : Nat) : Int := (((n : Int) + 7) / 8 * 8 - n) * item\n"
                "def v1Trailer : Nat := 8\n"
                "def defRleHeader (n : Nat) : Int := (n : Int) * 2\ndef defRleValue : Int := 1\n"
                "def defBpHeader (m : Nat) : Int := (m : Int) * 2 + 1\ndef defPrefixBytes : Nat := 4\n"
                "def recognised : Bool := false\n"
                f"def note : String := \"{msg}\"\n"
                "end PqV.Gen.WriteLayout\n")


@register("ReadGuards")
def gen_readguards(repo):
    """core.read_col / read_data_page: when the reader steps over the level block, and when it takes the byte-exact code path"""
    src = open(os.path.join(repo, "fastparquet", "core.py")).read()
    tree = ast.parse(src)
    fns = {n.name: n for n in ast.walk(tree) if isinstance(n, ast.FunctionDef)}
    rc = fns["read_col"]
    guard = None
    for n in ast.walk(rc):
        if isinstance(n, ast.If) and any(isinstance(b, ast.Assign) and getattr(b.targets[0], "id", None) == "skip_nulls"
                                         and isinstance(b.value, ast.Constant) and b.value.value is True for b in n.body):
            guard = n.test
            other = [b for b in n.orelse if isinstance(b, ast.Assign) and getattr(b.targets[0], "id", None) == "skip_nulls"]
            if not (other and isinstance(other[0].value, ast.Constant) and other[0].value.value is False):
                raise ValueError("skip_nulls is not set to False in the else branch")
    if guard is None:
        raise ValueError("no `skip_nulls = True` under an if in read_col")
    conj = [ast.unparse(v) for v in guard.values] if isinstance(guard, ast.BoolOp) and isinstance(guard.op, ast.And) else [ast.unparse(guard)]
    rdp = fns["read_data_page"]
    # where skip_nulls is used: `if skip_nulls and not helper.is_required(...)`
    use = [ast.unparse(n.test) for n in ast.walk(rdp) if isinstance(n, ast.If) and "skip_nulls" in ast.unparse(n.test)]
    fast = [ast.unparse(n.test) for n in ast.walk(rdp) if isinstance(n, ast.If) and "selfmade" in ast.unparse(n.test) and "bit_width" in ast.unparse(n.test)]
    q = lambda l: "[" + ", ".join('"' + x.replace('\\', '\\\\').replace('"', '\\"') + '"' for x in l) + "]"
    return ("-- REGENERATED from fastparquet/core.py (read_col / read_data_page) - do not edit\n"
            "namespace PqV.Gen.ReadGuards\n"
            f"def skipGuard : List String := {q(conj)}\n"
            f"def skipUse : List String := {q(use)}\n"
            f"def codeFastPath : List String := {q(fast)}\n"
            "end PqV.Gen.ReadGuards\n")
