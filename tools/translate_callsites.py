"""Small source-shape translators (regenerated tables): ordered I/O calls of functions whose
correctness rests on the *order* of their file operations."""
import ast, os
from tools.translate import register
from tools.translate_py import Unsupported, find_func


def io_calls(fn, handle="f", extra_writers=("write_thrift",)):
    """ordered list of method names called on `handle` inside fn (textual order), counting
    helper(handle, ...) calls listed in extra_writers as 'write'."""
    calls = []
    for node in ast.walk(fn):
        if isinstance(node, ast.Call):
            f = node.func
            if isinstance(f, ast.Attribute) and isinstance(f.value, ast.Name) and f.value.id == handle:
                calls.append((node.lineno, node.col_offset, f.attr))
            elif isinstance(f, ast.Name) and f.id in extra_writers and node.args and isinstance(node.args[0], ast.Name) \
                    and node.args[0].id == handle:
                calls.append((node.lineno, node.col_offset, "write"))
    return [c[2] for c in sorted(calls)]


@register("FooterIO")
def gen_footer_io(repo):
    src = open(os.path.join(repo, "fastparquet", "writer.py")).read()
    fn = find_func(ast.parse(src), "update_file_custom_metadata")
    ops = io_calls(fn)
    if not ops:
        raise Unsupported("no file operations found in update_file_custom_metadata")
    lst = ", ".join('"%s"' % o for o in ops)
    return ("-- REGENERATED on every run by tools/translate_callsites.py from fastparquet/writer.py — do not edit\n"
            "namespace PqV.Gen.FooterIO\n"
            f"/-- file-method calls of `update_file_custom_metadata` (line {fn.lineno}) in source order -/\n"
            f"def ioOps : List String := [{lst}]\n"
            "/-- does the function truncate the file after writing the new trailer? -/\n"
            "def truncates : Bool := ioOps.getLast? == some \"truncate\"\n"
            "end PqV.Gen.FooterIO\n")
