#!/bin/sh
# usage: confirm_mutant.sh <prop> <mN>   (reads /tmp/mut/<prop>/<mN>.diff etc., writes /tmp/mut/<prop>/<mN>.confirm)
# Confirms in a scratch worktree of /repo's *base* commit semantics: demo passes clean, fails mutated, suite == baseline.
prop=$1; m=$2
wt=/tmp/wt/cm-$prop-$m
out=/tmp/mut/$prop/$m.confirm
rm -rf $wt; git -C /repo worktree add --detach $wt HEAD >/dev/null 2>&1 || { echo "worktree failed" > $out; exit 1; }
cp /repo/fastparquet/*.so /repo/fastparquet/*.c /repo/fastparquet/_version.py $wt/fastparquet/
mkdir -p $wt/mutants; cp /tmp/mut/$prop/${m}_demo.py $wt/mutants/
cd $wt
/venv/bin/python mutants/${m}_demo.py > /tmp/mut/$prop/$m.clean.log 2>&1; rc_clean=$?
git apply /tmp/mut/$prop/$m.diff; rc_apply=$?
/venv/bin/python mutants/${m}_demo.py > /tmp/mut/$prop/$m.mut.log 2>&1; rc_mut=$?
VERIF_REPO=$wt /venv/bin/python /verif/tools/baseline_check.py 4 > /tmp/mut/$prop/$m.suite.log 2>&1; rc_suite=$?
echo "apply=$rc_apply demo_clean=$rc_clean demo_mutated=$rc_mut suite_rc=$rc_suite $(tail -1 /tmp/mut/$prop/$m.suite.log | head -c 200)" > $out
cd /; git -C /repo worktree remove --force $wt
cat $out
