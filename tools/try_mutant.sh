#!/bin/sh
# usage: tools/try_mutant.sh <patch.diff> <prop> [tier]   — apply to /repo, run the check, undo
set -u
patch=$1; prop=$2; tier=${3:-quick}
git -C /repo apply "$patch" || { echo "APPLY FAILED"; exit 3; }
cd /verif && ./check $prop --tier $tier > /tmp/try_$prop.log 2>&1; rc=$?
git -C /repo checkout -- . 
git -C /verif checkout -- evidence
echo "rc=$rc"; grep -E "VIOLATION|KNOWN-FINDING|\[check\] (C|lean)" /tmp/try_$prop.log | cut -c1-260 | head -20
