#!/venv/bin/python
"""Build a per-run scratch copy of the fastparquet package from ${VERIF_REPO:-/repo}'s *current*
working tree: symlinks to the current .py files plus the two extension modules compiled with gcc
from the current cencoding.c / speedups.c (Cython is absent in this sandbox, see DESIGN §2.1).

Compiled objects are cached by content hash of the .c file under <verif>/.cache/ext/ (content
addressed: a changed .c is always recompiled).  Also compares the .pyx lines quoted in the .c
comments with the current .pyx text ("drift").
"""
import hashlib, os, re, shutil, subprocess, sys, sysconfig, tempfile, json

VERIF = os.path.dirname(os.path.dirname(os.path.abspath(__file__)))
REPO = os.environ.get("VERIF_REPO", "/repo")
EXT_SUFFIX = sysconfig.get_config_var("EXT_SUFFIX")


def _sha(path):
    h = hashlib.sha256()
    with open(path, "rb") as f:
        for blk in iter(lambda: f.read(1 << 20), b""):
            h.update(blk)
    return h.hexdigest()[:24]


def compile_ext(cfile, modname, sanitize=False):
    """sanitize: False | True (halting ASan+UBSan without the signed-left-shift check) | "recover"
    (UBSan reports everything incl. signed left shifts and continues)"""
    import numpy
    cache = os.path.join(VERIF, ".cache", "ext")
    os.makedirs(cache, exist_ok=True)
    key = _sha(cfile) + ("" if not sanitize else ("-san4r" if sanitize == "recover" else "-san4"))
    out = os.path.join(cache, f"{modname}-{key}{EXT_SUFFIX}")
    if os.path.exists(out):
        return out, True
    inc = sysconfig.get_paths()["include"]
    if sanitize:
        # alignment: x86 tolerates the extension's unaligned int loads, and the property is about bounds and
        # undefined *arithmetic*; function/vptr: not applicable to C
        if sanitize == "recover":
            extra = ["-fno-sanitize=alignment,function,vptr", "-fsanitize-recover=undefined"]
        else:
            # shift-base (signed left shift of a negative value / into the sign bit) is defined as wrap-around by
            # gcc and clang and assumed so by the models; it is probed separately with the "recover" build
            extra = ["-fno-sanitize=alignment,function,vptr,shift-base", "-fno-sanitize-recover=undefined"]
        cmd = ["clang", "-O1", "-g", "-fno-omit-frame-pointer", "-fsanitize=address,undefined"] + extra + \
              ["-shared-libsan", "-shared", "-fPIC", "-w"]
    else:
        cmd = ["gcc", "-O1", "-shared", "-fPIC", "-w"]
    cmd += ["-DNPY_NO_DEPRECATED_API=0", f"-I{inc}", f"-I{numpy.get_include()}", cfile, "-o", out + ".tmp"]
    r = subprocess.run(cmd, capture_output=True, text=True)
    if r.returncode != 0:
        raise RuntimeError(f"compile of {cfile} failed:\n{r.stderr[-3000:]}")
    os.replace(out + ".tmp", out)
    return out, False


def drift(pyx, cfile):
    """Return list of (lineno, pyx_line, c_quoted_line) where the .c's quoted source differs."""
    try:
        src = open(pyx, encoding="utf8").read().split("\n")
        ctext = open(cfile, encoding="utf8", errors="replace").read()
    except OSError:
        return None
    name = os.path.basename(pyx)
    out = {}
    for m in re.finditer(r'/\* "fastparquet/%s":(\d+)\n((?: \*[^\n]*\n)+?)\s*\*/' % re.escape(name), ctext):
        n = int(m.group(1))
        lines = [l[3:] if l.startswith(" * ") else l[2:] for l in m.group(2).split("\n") if l.startswith(" *")]
        # the marked line carries '# <<<<<<<<<<<<<<'
        idx = [i for i, l in enumerate(lines) if l.rstrip().endswith("# <<<<<<<<<<<<<<")]
        if not idx:
            continue
        k = idx[0]
        for j, l in enumerate(lines):
            ln = n + (j - k)
            txt = re.sub(r"\s*# <<<<<<<<<<<<<<$", "", l).rstrip()
            if 1 <= ln <= len(src):
                if src[ln - 1].rstrip().replace("*[inserted by cython to avoid comment closer]/", "*/") != txt.replace("*[inserted by cython to avoid comment closer]/", "*/"):
                    out.setdefault(ln, (src[ln - 1].rstrip(), txt))
    return sorted((k, v[0], v[1]) for k, v in out.items())


def build(dest=None, sanitize=False):
    """Create scratch package; returns dict(path=..., drift=..., cached=...)."""
    import concurrent.futures as cf
    base = dest or tempfile.mkdtemp(prefix="pqv-%d-" % os.getpid(), dir=os.environ.get("TMPDIR", "/var/tmp"))
    pkg = os.path.join(base, "fastparquet")
    os.makedirs(pkg, exist_ok=True)
    src = os.path.join(REPO, "fastparquet")
    for name in os.listdir(src):
        p = os.path.join(src, name)
        if name.endswith(".py") or name in ("parquet_thrift", "parquet.thrift"):
            os.symlink(p, os.path.join(pkg, name))
    info = {"path": base, "drift": {}, "cached": {}, "source": {}}
    jobs = {}
    with cf.ThreadPoolExecutor(2) as ex:
        for mod in ("cencoding", "speedups"):
            cfile = os.path.join(src, mod + ".c")
            if os.path.exists(cfile):
                jobs[mod] = ex.submit(compile_ext, cfile, mod, sanitize)
            else:
                jobs[mod] = None
        for mod, fut in jobs.items():
            target = os.path.join(pkg, mod + EXT_SUFFIX)
            if fut is None:
                # no generated C present: fall back to the shipped binary
                so = os.path.join(src, mod + EXT_SUFFIX)
                shutil.copy(so, target)
                info["source"][mod] = "prebuilt-so"
                info["cached"][mod] = True
                info["drift"][mod] = None
            else:
                so, cached = fut.result()
                shutil.copy(so, target)
                info["source"][mod] = "rebuilt-from-c"
                info["cached"][mod] = cached
                d = drift(os.path.join(src, mod + ".pyx"), os.path.join(src, mod + ".c"))
                info["drift"][mod] = d
    return info


if __name__ == "__main__":
    info = build(sys.argv[1] if len(sys.argv) > 1 else None)
    print(json.dumps(info, indent=1)[:2000])
