#!/usr/bin/env python3
"""Regenerate MANIFEST.json from the table below (kept in one place so it stays valid)."""
import json, os
VERIF = os.path.dirname(os.path.dirname(os.path.abspath(__file__)))

CHECKS = {
 # id: (level text, level note, technique, design_ref)
 "C11": ("Lean 4 theorems: specification-level round trips for varint, zigzag and bit packing at every width and count; refinement "
         "theorems that the code-shaped models of read_unsigned_var_int / encode_unsigned_varint / zigzag kernels equal the "
         "specification on the whole uint64/int64 range; of read_bitpacked (all widths <= 24, loop invariant + ranking function), "
         "read_rle, read_rle_bit_packed_hybrid (= Spec.decodeHybrid on every well-formed run stream), read_bitpacked1, "
         "unpack_byte_array, encode_bitpacked (writer side, widths 0..24), delta_read_bitpacked (widths 1..28) and the WHOLE delta_binary_unpack (= Spec.decodeDelta on every "
         "conforming stream with miniblock widths <= 28, INT32 and INT64). The models are tied to the compiled extension (rebuilt from the current "
         ".c) by an exhaustive three-way comparison over the lattice the property names; widths where the kernels are wrong are "
         "known findings with counter-example witnesses.",
         "Trusted: Lean kernel, propext/Classical.choice/Quot.sound, the gcc build of the generated C (Cython absent), the harness. "
         "Modelled, not verified: the C compiler's output.",
         "Lean 4 proof (induction) + exhaustive model/implementation correspondence", "§6 C11"),
 "C05": ("Lean 4 theorems over definitions REGENERATED from fastparquet/api.py on every run (filter_val, filter_in, filter_not_in): "
         "whenever the interval test says 'exclude', no cell within the recorded bounds satisfies the condition, for every comparison "
         "operator and 'in' (incl. searchsorted and one-sided bounds), and for 'not in' when min = max; the full 'not in' statement is "
         "refuted by a proved counter-example (known finding). The pruning loop (filter_out_stats / filter_out_cats / "
         "filter_row_groups) is a hand model tied by correspondence on generated datasets; the property oracle (no qualifying row "
         "lost; result is a concatenation of whole row groups) runs on the real code.",
         "Trusted: Lean kernel + propext/Classical.choice/Quot.sound, the Python->Lean translator (validated against the real functions on an "
         "exhaustive grid each run), rank-mapping of ordered scalars to Int. Outside the model: partition text typing, cross-type comparison.",
         "Lean 4 proof over regenerated model + correspondence", "§6 C05"),
 "C16": ("Lean 4 theorems about a byte-level model of the in-place footer rewrite: bytes before the footer are untouched for any new "
         "footer; with truncation (regenerated from the source: the ordered file-method calls of update_file_custom_metadata) the result "
         "is strictly framed whatever the size change, and the footer position is stable so the invariant holds along any update "
         "sequence; without truncation a proved witness shows a 1..7-byte shrink is unreadable (the repaired defect); the key-merge "
         "rule equals the plain map specification for one update on distinct keys. Model tied to the code by byte-for-byte and "
         "key-list correspondence over generated update histories; oracle on the real files after every step. Sequence level: any_update_sequence (after any sequence of rewrites the data file is strictly framed at the same offset with the latest footer and the data bytes are unchanged).",
         "Trusted: Lean kernel + standard axioms; POSIX write/truncate semantics (assumed); the Thrift serialiser (C10). ",
         "Lean 4 proof (byte-level model, regenerated I/O sequence) + correspondence", "§6 C16"),
 "C19": ("Lean 4 theorems over the ordered list of filesystem operations of a multi-file append (Impl.Dataset.appendOps): for EVERY crash "
         "point k up to the first _metadata operation a fresh open reads exactly the previous rows; no operation of the append targets "
         "a file the dataset references (fresh part numbers by find_max_part). The operation list is tied to the real open_with/mkdirs "
         "call sequence by trace correspondence, and every k is also injected on the real code (exhaustive in k per scenario).",
         "Trusted: Lean kernel + standard axioms; filesystem semantics assumed (failed call has no effect, 'wb' truncates at open); path text / "
         "PART_ID regex outside the model (tied by correspondence). Not modelled: partial writes inside one write call, durability.",
         "Lean 4 proof (ordering/freshness invariant) + exhaustive fault injection correspondence", "§6 C19"),
 "C07": ("Lean 4 theorems: single-file append leaves every byte before the old footer unchanged and yields old row groups ++ new row "
         "groups ++ footer ++ trailer; multi-file append gives new parts numbers strictly above all referenced ones, so no operation "
         "targets an existing data file; categorical read-back equals each row's own label when all dictionaries agree, and a proved "
         "counter-example shows it does not otherwise (known finding). Tied to the code by trace and byte correspondence over append "
         "histories; oracle: existing bytes/files unchanged and read = original ++ batches in order. Sequence level: appends_concatenate (after ANY sequence of appends the content is the previous content followed by every batch in order, the agreement invariant holds and every earlier file keeps its rows).",
         "Trusted: Lean kernel + standard axioms; POSIX write semantics; path text / regex outside the model. Value decode per row group is C01/C03.",
         "Lean 4 proof + trace/byte correspondence over histories", "§6 C07"),
 "C09": ("Lean 4 model of the dataset-edit state machine (append, partition overwrite, row-group removal, two-pass part-file "
         "renumbering through .tmp names) with the theorem agree_after_every_history: after ANY sequence of write / append / overwrite / "
         "remove_row_groups / write_row_groups(sort_key) / _sort_part_names, with or without renumbering, every referenced file exists with "
         "the stated rows, there is no unreferenced part file and no two row groups share a file (induction over the operations; "
         "sort_names_total_and_neutral: the renumbering cannot fail or clobber a live file and leaves content unchanged with number = "
         "position); append / removal refine the plain partition->rows specification; the driver runs the very step function the "
         "theorems are about; tied to the code by step-by-step correspondence of directory listing and row-group list over "
         "random histories; the invariant and the plain model are also evaluated directly on the real directory after every step.",
         "Trusted: Lean kernel + standard axioms; rename replaces its destination; partition text equality stands for value equality "
         "(timestamp partitions excluded).",
         "Lean 4 proof (invariant by induction over operations) + history correspondence", "§6 C09"),
 "C18": ("Lean 4 theorems: a rejection detected up front performs no filesystem operation; a failure at any position of a multi-file append "
         "(any prefix of the data phase) leaves a fresh open reading exactly the previous content; for single files the model shows the "
         "footer is overwritten before the new one exists (proved witness) and that rewriting the saved tail restores the file byte for "
         "byte. The harness enumerates every kind of rejection x offending column position x row group x dataset layout on the real "
         "code, checks that it raises, that every pre-existing file is byte-identical and the content re-reads, and records the "
         "open/mkdir calls (up-front rejections must issue none). History level: rejected_attempts_invisible - after ANY sequence of attempted "
         "appends, each completing or failing after any number of data-phase operations, a fresh open reads what it reads after the completed "
         "ones alone (invariant by induction over the history); on the real code every late rejection is followed by a valid append that must "
         "give old ++ new.",
         "Trusted: Lean kernel + standard axioms; filesystem semantics as in C19. The enumeration of rejection kinds is the property's list.",
         "Lean 4 proof + exhaustive enumeration of rejection kinds with fs-trace correspondence", "§6 C18"),
 "C06": ("Lean 4 theorems about the row-placement and selection algebra of partial reads: filling a pre-allocated buffer at running offsets "
         "is concatenation (so a sliced/picked handle reads exactly its row groups in order), iteration row group by row group "
         "concatenates to the full read, reported counts equal rows read, head(n) equals the first n rows of the full read for "
         "every n on a non-empty dataset, and (with the loop index initialised - regenerated from the source) also on a dataset "
         "with zero row groups. Tied to the code by predicting the row ids of random access programs; the metamorphic oracle "
         "(partial read == that part of the full read, cell by cell; counts; columns; index choices; file-like, pickle, copy) "
         "runs on the real code. Program level: program_reads_whole_row_groups (after any chain of slices / picks the handle's row groups are row groups of the dataset and the read is exactly their rows).",
         "Trusted: Lean kernel + standard axioms. Outside the model: value decoding per row group (C01/C03), pandas index objects.",
         "Lean 4 proof (list algebra) + access-program correspondence", "§6 C06"),
 "C13": ("Lean 4 theorems about a code-shaped model of row-level filtering: the evaluation loops of _column_filter compute the OR over "
         "groups of the AND over conditions with a flat list being one AND group; slicing a selection per row group / per page and "
         "concatenating equals applying it to the whole; filtering level and value arrays separately inside a page and scattering "
         "back yields exactly the selected rows, nulls included; the filtered count is the number of selected rows; row_filter_exact: with a "
         "condition on a partition column evaluated per row group (_partition_term, the repaired code; skeleton regenerated) the selection is exactly "
         "the rows satisfying ALL conditions of some group (the model with the term skipped - the code before repair - is refuted by a proved "
         "witness). The harness checks the "
         "real reads against brute force over datasets with unequal row groups, multi-page chunks, nulls, v1/v2 pages and "
         "partitions.",
         "Trusted: Lean kernel + standard axioms; page decoding is C01/C03; pandas comparison semantics on missing cells as modelled "
         "(don't-care for != / not in).",
         "Lean 4 proof (list algebra over the evaluation/masking logic) + brute-force oracle", "§6 C13"),
 "C04": ("Lean 4 theorems over a model of the writer's statistics bookkeeping: min/max are lower/upper bounds that are attained by a stored "
         "non-null value, exist iff the chunk has a non-null value, and do not depend on the paging; the null tally accumulated page "
         "by page equals the number of missing cells for every split into pages; categorical bounds taken from the labels present are "
         "exact (which branch the code uses is regenerated from write_column; the category-order variant is refuted by a proved "
         "witness - the repaired defect); sorted_partitioned_columns is sound given exact statistics. Tied to the code by comparing "
         "the model's statistics with the Statistics struct of every written chunk; raw and logical brute-force oracles on the files.",
         "Trusted: Lean kernel + standard axioms; rank mapping of ordered scalars; pandas max/min skip missing values (contract). "
         "UTF-8 byte order = code point order is assumed for text (enumerated by the harness, not proved).",
         "Lean 4 proof + per-chunk correspondence and brute-force oracle", "§6 C04"),
 "C08": ("Lean 4 theorems about the split/placement/path layer of directory partitioning: groups are written in strictly increasing key "
         "order, every row of a group carries the group's key, the group of a key holds exactly the rows with that key in their "
         "original order, no empty group is written, and the number of rows written equals the number of rows with non-null keys "
         "(no loss, no duplication); splitting a joined path returns the segments and hive name=value directories round-trip for any "
         "number of levels when names and value texts contain neither '/' nor '='. The grouping model is tied to the part files "
         "written per incoming row group; the text round trip of partition VALUES (float, timestamp, numeric-looking text, bool) is an "
         "assumption exercised on the real code by the harness oracle (placement per part file, multiset of rows, value kinds).",
         "Trusted: Lean kernel + standard axioms; pandas groupby(sort=True). Outside the model: path_string/val_to_num/val_from_meta "
         "value text, pandas categoricals for partition columns.",
         "Lean 4 proof + part-file correspondence and oracle", "§6 C08"),
 "C14": ("Lean 4 theorems about base-path inference (analyse_paths, modelled on path segments): the inferred base is a prefix of every given "
         "path, strictly shorter than each, and base ++ relative path reconstructs every path (also with an explicit root, or the call "
         "is refused); merged rows are the concatenation in the given order and num_rows their sum; categorical labels are right "
         "when dictionaries agree and a proved witness shows they are not otherwise (known finding, as C07). analyse_paths is tied "
         "exhaustively (all lists of <=3 paths, depth<=3, 2-letter alphabet); the concatenation oracle runs on real files opened via "
         "list, directory, glob and merge() in flat/hive/drill shapes, >=3 files taking the concurrent-footer path.",
         "Trusted: Lean kernel + standard axioms. Outside the model: fsspec listing order, footer fetching, per-file decode.",
         "Lean 4 proof + exhaustive correspondence of analyse_paths + concatenation oracle", "§6 C14"),
 "C10": ("Lean 4: (a) table theorems, decided by the kernel over tables REGENERATED from parquet.thrift, cencoding.pyx (specs/children, field "
         "loop bound, list-header switch, buffer heuristic) and every Thrift construction site of writer/util/api: field ids agree with "
         "the IDL and are complete, nested struct names agree, the only fields the writer loop never reaches are the two with id 14, every "
         "construction site carries the 32-bit markers the IDL implies (one never-serialised local excepted), the only narrow integer "
         "fields are IntType.bitWidth and RowGroup.ordinal; (b) a specification-level compact-protocol encoder/decoder and a "
         "code-shaped model of write_thrift/read_thrift, compared three ways (spec / model / compiled extension) on IDL-generated "
         "values incl. list lengths 0/1/14/15/16 and megabyte strings, via the API and via independently encoded bytes; (c) proved for all "
         "structures: spec decoder after spec encoder is the identity (spec_roundtrip_any_structure) and the model of to_bytes refines the "
         "spec encoder wherever the structure has an IDL-level reading (serialiser_lossless), so its bytes decode to exactly that structure.",
         "Trusted: Lean kernel + standard axioms (decide +kernel, no native_decide); the three table translators (regex/ast extraction, "
         "they fail loudly on an unknown shape); gcc build of the current cencoding.c. The model of the serialiser is tied to the compiled extension by "
         "correspondence; its losslessness is a theorem (DESIGN 0.4).",
         "Lean 4 kernel-decided table obligations over regenerated tables + 3-way correspondence", "§6 C10"),
 "C12": ("Partial by nature: Lean 4 theorems are about the code-shaped models (explicit Fault for every out-of-buffer access or "
         "out-of-range shift): read_unsigned_var_int and read_rle are safe on every well-formed input, the 10-byte header scratch "
         "buffers suffice for every count below 2^31, and for EVERY Statistics whose max is >= 500000 bytes the serialised form "
         "exceeds the fixed buffer (the known overflow). The compiled code itself is executed on the C11 lattice and on "
         "IDL-generated structures under an ASan+UBSan build rebuilt from the current .c, with exactly sized heap inputs; the "
         "model's fault/no-fault verdict is compared with the sanitizer's on every case.",
         "Trusted: Lean kernel + standard axioms; clang's sanitizers as the observer of the machine code; CPython/numpy are not "
         "instrumented. Memory safety of the machine code is observed on the enumerated inputs, not proved.",
         "Lean 4 proof (model-level safety) + sanitizer execution with fault-verdict correspondence", "§6 C12"),
 "C20": ("Partial by nature: a Lean 4 interleaving theorem over a shared-state access model - threads whose steps are reads of never-written "
         "locations or memo steps (a value that depends on immutable data only) keep an invariant under every interleaving and "
         "observe exactly what they observe alone; a proved witness schedule shows that rebuilding shared state in place (reset, then "
         "refill) breaks this, and that publishing an equal value with one atomic write does not. The model's classification of "
         "every API operation (writes nothing but memo keys; deriving a handle leaves the parent's shared state equal) is tied to the "
         "code by deep snapshots of the shared metadata before/after each operation run alone; thread pools of 2..16 with a minimal "
         "switch interval search for a disagreeing schedule on the real code. noninterference is proved for EVERY schedule and any number of threads (induction over the schedule of the interleaving semantics runSched).",
         "Trusted: Lean kernel + standard axioms; the GIL makes single dict/list operations atomic (assumed); completeness of the "
         "measured write sets. Bytecode-level atomicity and pandas internals are outside the model.",
         "Lean 4 proof (interleaving invariant) + write-set correspondence + schedule search", "§6 C20"),
 "C17": ("Lean 4 theorems over decision tables REGENERATED from converted_types.py (simple / complex / nullable) and two facts regenerated "
         "from ParquetFile._dtypes: every integer/boolean dtype the tables can yield has a nullable counterpart; if the promotion loop "
         "concludes 'no nulls' then no row group holds a null, provided statistics without a null count count as 'may have nulls' (true "
         "of the current source; the opposite reading is refuted by a proved witness - the repaired defect); a column that may hold "
         "nulls is never predicted a plain int/bool. Tied by comparing the model's prediction with ParquetFile.dtypes for files without "
         "pandas metadata; the oracle compares every metadata-only answer (columns, dtypes, categories, index, counts) with the read.",
         "Trusted: Lean kernel + standard axioms; the table translator. Outside the model: pandas metadata JSON branch of typemap, "
         "time zones, pandas dtype objects (compared by canonical name).",
         "Lean 4 proof over regenerated tables + prediction correspondence + oracle", "§6 C17"),
 "C03": ("Lean 4 theorems: the specification decoder inverts every choice a conforming writer has - a hybrid stream of ANY mixture of well-formed "
         "RLE and bit-packed runs at ANY width decodes to the values it stands for (hence dictionary indices at any width byte), dictionary "
         "look-up is total on in-range indices, scattering values over definition levels yields one cell per level, nulls exactly below the "
         "maximum level and values in order, and is independent of where page boundaries fall (also covers dictionary fallback). The "
         "executable reader Spec.File assembled from these pieces CERTIFIES every file of a specification-level writer (types x encodings x "
         "index widths 0..32 x delta widths 0..64 x run mixtures x level encodings x page splits x row groups x null patterns x codecs x "
         "v1/v2 +- compressed flag) before fastparquet reads it in an isolated process; the read must equal the certified table or refuse. "
         "Kernel-decided witnesses show the code-shaped kernel models fault at bit-packed width 25/26 and delta width 29 (known findings).",
         "Trusted: Lean kernel + standard axioms; the Lean compiler for executing Spec.File; cramjam (codecs are outside Lean). The tie "
         "between fastparquet's reader and the specification is the certified-file comparison (differential), not a refinement proof of "
         "core.py; the kernels' code-shaped models are tied by the C11 correspondence.",
         "Lean 4 proof (specification decoder inverts any conforming encoder) + Lean-certified foreign files vs the real reader", "§6 C03"),
 "C15": ("Lean 4 theorems: standard record assembly (Spec.Dremel) inverts shredding for every list of rows - null rows, empty collections, "
         "null elements, element order - and composes over page boundaries placed anywhere, also inside a row. The code-shaped model "
         "Impl.Assemble of _assemble_objects and of read_col's page chaining (the chaining rule and the MAP key selection are REGENERATED "
         "from core.py; kernel-decided facts about them are proof obligations) is tied to the compiled kernel by running both on the same "
         "level/value streams cut into pages at arbitrary positions; the real result must equal Spec.Dremel's (the property). Whole nested "
         "files from the specification-level writer (LIST and MAP, v1/v2, plain/dictionary, codecs, page cuts incl. inside rows, several "
         "row groups) are certified by the Lean reader (Spec.File + Spec.Dremel) and then read by to_pandas() in an isolated process. "
         "A kernel-decided witness shows the model loses a continuation that carries only nulls (known finding). PARTIAL: the refinement "
         "Impl.Assemble = Spec.Dremel for all streams is established by correspondence and witnesses, not yet by a general theorem.",
         "Trusted: Lean kernel + standard axioms; Lean compiler for Spec.File; cramjam. Models only one-level LIST / MAP of primitives (the "
         "property's scope); deeper nesting is outside.",
         "Lean 4 proof (record assembly inverts shredding, page composition) + kernel correspondence + Lean-certified nested files", "§6 C15"),
 "C01": ("Partial: the oracle (the property itself: names, order, rows, index, every cell, dtype or documented canonical form - or the write "
         "raised) is evaluated on the real code over the option lattice with pairwise/random coverage; the format pipeline is tied to the "
         "Lean specification reader Spec.File, which decodes the very bytes the writer produced (C02) - so a symmetric writer/reader error is "
         "not invisible. Lean theorems at this level are those of C11 (codecs), C04 (statistics), C06 (row placement) and the page "
         "building blocks in Props/C01 (definition-level framing, boolean padding, int96 and time-unit arithmetic). The writer side of the pipeline "
         "is inside the model: Impl.WritePage (code-shaped model of write_column's pages: make_definitions, encode_plain, encode_dict, header numbers) "
         "is tied to the real writer byte for byte on every page of every file the C02 run writes (wpage.chunk), and written_chunk_decodes "
         "(Props/C02) proves that the specification reader returns exactly the cells that went in, for any pages / v1 / v2 / REQUIRED / OPTIONAL / "
         "PLAIN / dictionary. The reader side for v1 pages is inside the model too: Impl.ReadPage (code-shaped model of core.read_data_page - read_def, the "
         "skip_definition_bytes shortcut, read_plain, the np.frombuffer shortcut for 8/16/32-bit codes - and of read_col's placement) is tied to the real "
         "function on every v1 page the run writes (rpage.v1), and read_back_written_page / read_back_written_column prove reader-model(writer-model(cells)) = cells "
         "for any cells, any page cuts, REQUIRED / OPTIONAL, PLAIN / dictionary, with or without the no-null shortcut (read_back_written_chunk_by_statistics: the "
         "shortcut decided by the writer's own recorded null_count; read_guards_now: the regenerated conditions under which read_col takes it). range_index_regenerated_now: a written RangeIndex of any start and non-zero step is regenerated with exactly one "
         "label per row (over the stop expression REGENERATED from api.py).",
         "Trusted: Lean kernel + standard axioms for the component theorems; dtype/metadata restoration (pandas metadata JSON, tz, "
         "categorical flags, numpy views in dataframe.empty) is outside the model and covered by the oracle only.",
         "Lean 4 proof (reader model inverts writer model at page and chunk level; components) + function-level correspondence of both models + round-trip oracle", "§6 C01"),
 "C02": ("The Lean specification reader/validator Spec.File (file layout, Thrift compact metadata typed against the IDL table regenerated from "
         "parquet.thrift, page headers, v1/v2 page layouts, PLAIN / dictionary / RLE / delta values, hybrid levels) is run on the real bytes of "
         "EVERY file a write produces: magic, footer length, every metadata field with the id and wire type the IDL declares, per chunk "
         "offsets / compressed and uncompressed sizes / num_values / null counts describing exactly the bytes present, pages tiling the "
         "chunk, value counts adding up to the row count, every RLE / bit-packed run of every level and dictionary-index stream present in "
         "full inside its page (hybridTight, proved to accept every conforming stream); and the decoded cells must equal the harness's own physical rendering of the "
         "frame incl. NULL vs NaN per nullability mode; ColumnMetaData.encodings / encoding_stats must describe the pages present and a summary "
         "file's num_rows must be the sum over its row groups. Lean theorems: the building blocks this reader rests on (varint, zigzag, bit "
         "packing round trips of C11; IDL table obligations of C10), and at chunk level written_chunk_decodes: the page loop of Spec.File "
         "(decodePages, the function run on the real bytes) accepts every chunk the model of write_column lays down (Impl.WritePage; any number "
         "of pages of any sizes, v1/v2, REQUIRED/OPTIONAL, PLAIN or dictionary with 1/2/4-byte codes), counts the rows written, finds every run "
         "tightly framed and returns exactly the cells that went in; written_chunk_metadata_describes_pages for encodings / encoding_stats. The model "
         "is tied to the real writer by the wpage.chunk correspondence: every page payload (decompressed) and header number of every file written "
         "in the run equals the model's bytes. Validator soundness: accepted_pages_tile_the_chunk, accepted_pages_count_rows, accepted_pages_one_level_per_value "
         "(what Spec.File accepts as the pages of a chunk tiles it, and its row / level counts add up). write_layout_now / def_layout_now: the layout arithmetic of "
         "encode_dict / make_definitions is REGENERATED and the model is built from it.",
         "Trusted: Lean kernel + standard axioms; the Lean compiler for executing Spec.File; cramjam for decompressing page payloads; "
         "fidelity of Spec.File to the Parquet documents is by construction and reading, no second implementation is installed.",
         "Lean 4 proof (writer model's chunks decode to their cells under the specification reader) + byte-exact writer correspondence + executable specification reader with IDL-typed validation", "§6 C02"),
}

def main():
    props = [json.loads(l)["id"] for l in open(os.path.join(VERIF, "properties.jsonl"))]
    na = json.load(open(os.path.join(VERIF, "tools", "not_applicable.json")))
    m = {
        "version": 1,
        "setup_cmd": "./check --setup",
        "hooks": {"guard": "FASTPARQUET_VERIF", "enable": "no source hooks are used; checks import the current working tree of /repo through a per-run scratch package",
                  "baseline_off_cmd": "cd /repo && /venv/bin/python -m pytest -ra -q -p no:cacheprovider --timeout=900 --continue-on-collection-errors",
                  "source_commits": [], "add_only": True},
        "engines": [{"name": "pqv", "path": "lean", "serves_properties": sorted(CHECKS),
                     "kind_free_text": "Lean 4 library PqV (Spec, Impl, Gen, Lemmas, Props) + compiled line-protocol driver + Python correspondence harness"}],
        "checks": [], "not_applicable": [],
        "notes": "Every check: ./check <id> --tier quick|thorough.  See DESIGN.md.",
    }
    for pid in props:
        if pid in CHECKS:
            text, note, tech, ref = CHECKS[pid]
            m["checks"].append({
                "property_id": pid, "quick_cmd": f"./check {pid} --tier quick", "thorough_cmd": f"./check {pid} --tier thorough",
                "evidence_file": f"evidence/{pid}.json", "replay_cmd_template": f"./check {pid} --replay {{path}}",
                "engine": "pqv", "level_claimed": {"category": "proof", "text": text, "design_ref": ref},
                "level_note": note, "technique": tech})
        else:
            m["not_applicable"].append({"property_id": pid, "reason": na.get(pid, "check not built yet in this round; planned per DESIGN.md §6 (machine-checked proof + correspondence)")})
    json.dump(m, open(os.path.join(VERIF, "MANIFEST.json"), "w"), indent=1)

if __name__ == "__main__":
    main()
