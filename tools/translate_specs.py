"""cencoding.pyx -> PqV/Gen/Specs.lean: the hand-maintained `specs` / `children` tables, the field
loop bound of write_thrift, the short/long list-header switch, the to_bytes size heuristic."""
import ast, os, re
from tools.translate import register
from tools.translate_py import Unsupported


def dict_literal(src, name):
    m = re.search(r"^cdef dict %s = \{" % name, src, re.M)
    if not m:
        raise Unsupported(f"cdef dict {name} not found in cencoding.pyx")
    i = m.end() - 1
    depth, j = 0, i
    while j < len(src):
        if src[j] == "{":
            depth += 1
        elif src[j] == "}":
            depth -= 1
            if depth == 0:
                break
        j += 1
    return ast.literal_eval(src[i:j + 1])


def func_src(src, header_re):
    m = re.search(header_re, src, re.M)
    if not m:
        raise Unsupported(f"{header_re} not found")
    rest = src[m.end():]
    n = re.search(r"^(?:cpdef|cdef|def|@cython|cdef class|class)\b", rest, re.M)
    return rest[: n.start()] if n else rest


@register("Specs")
def gen_specs(repo):
    src = open(os.path.join(repo, "fastparquet", "cencoding.pyx")).read()
    specs = dict_literal(src, "specs")
    children = dict_literal(src, "children")
    wt = func_src(src, r"^cpdef void write_thrift\(")
    m = re.search(r"for i in range\(\s*(\d+)\s*,\s*(\d+)\s*\)", wt)
    if not m:
        raise Unsupported("field loop `for i in range(a, b)` not found in write_thrift")
    lo, hi = int(m.group(1)), int(m.group(2))
    wl = func_src(src, r"^cdef void write_list\(")
    sw = sorted(set(re.findall(r"if l > (\d+)", wl)))
    if len(sw) != 1:
        raise Unsupported(f"list header switch is not uniform: {sw}")
    tb = func_src(src, r"^    cpdef const uint8_t\[:\] to_bytes\(self\)")
    consts = [int(x) for x in re.findall(r"\b(\d{3,})\b", tb)]
    per = re.findall(r"size = (\d+) \* len", tb)
    floor = re.findall(r"if size < (\d+)", tb)
    if not per or not floor:
        raise Unsupported("to_bytes size heuristic has an unknown shape")
    rl = func_src(src, r"^cdef list read_list\(")
    rsw = re.findall(r"if byte >= (0x[0-9a-fA-F]+|\d+)", rl)
    out = ["-- REGENERATED on every run by tools/translate_specs.py from fastparquet/cencoding.pyx — do not edit",
           "namespace PqV.Gen.Specs",
           "/-- `specs`: struct name ↦ (field name ↦ field id) -/",
           "def specs : List (String × List (String × Nat)) := ["]
    out.append(",\n".join('  ("%s", [%s])' % (s, ", ".join(f'("{k}", {v})' for k, v in fs.items())) for s, fs in specs.items()))
    out.append("]")
    out.append("/-- `children`: struct name ↦ (field name ↦ nested struct name) -/")
    out.append("def children : List (String × List (String × String)) := [")
    out.append(",\n".join('  ("%s", [%s])' % (s, ", ".join(f'("{k}", "{v}")' for k, v in fs.items())) for s, fs in children.items()))
    out.append("]")
    out.append(f"/-- `for i in range({lo}, {hi})` in write_thrift -/")
    out.append(f"def loopLo : Nat := {lo}\ndef loopHi : Nat := {hi}")
    out.append(f"/-- `if l > {sw[0]}` in write_list: long list header from this length on (exclusive) -/")
    out.append(f"def listShortMax : Nat := {sw[0]}")
    out.append(f"/-- read_list: `if byte >= {rsw[0] if rsw else '?'}` -/")
    out.append(f"def readLongFrom : Nat := {int(rsw[0], 0) if rsw else 0}")
    out.append(f"/-- to_bytes: `size = {per[0]} * ...`, `if size < {floor[0]}` -/")
    out.append(f"def sizePerUnit : Nat := {per[0]}\ndef sizeFloor : Nat := {floor[0]}")
    out.append("end PqV.Gen.Specs")
    return "\n".join(out) + "\n"
