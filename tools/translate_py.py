"""Python `ast` -> Lean 4 translator for the pure decision functions of fastparquet (DESIGN §3.2).

Target: PqV.Prelude.Py (`Py α = Except PyErr α`, `PyVal`, pyLt/pyGt/..., pySorted, searchsorted*).
Statements are translated in continuation-passing style into nested `pyIf` / binds, so the output
is a plain functional term that `simp` can evaluate once the optional arguments are case-split.

Anything outside the supported subset raises `Unsupported` — the caller turns that into a broken
proof obligation (never a silent skip).
"""
import ast, os, textwrap
from tools.translate import register


class Unsupported(Exception):
    pass


LEAN_T = {"str": "String", "int": "Int", "opt": "(Option Int)", "list": "(List Int)", "bool": "Bool",
          "nat": "Nat", "pyval": "PyVal"}


class FnCtx:
    def __init__(self, name, params, ret, known, duals):
        self.name, self.params, self.ret, self.known, self.duals = name, params, ret, known, duals
        self.env = dict(params)
        self.tmp = 0
        self.notes = []

    def fresh(self, base="t"):
        self.tmp += 1
        return f"{base}_{self.tmp}"


def lean_name(n):
    return n.lstrip("_")


def lit_str(s):
    return '"' + s.replace("\\", "\\\\").replace('"', '\\"') + '"'


def wrap(binds, term):
    """binds: [(name, monadic term)] executed left to right, then `term` (a Py _)."""
    term = f"({term})"
    for name, m in reversed(binds):
        term = f"({m} >>= fun {name} => {term})"
    return term


def expr(e, cx):
    """-> (binds, pure term, type)"""
    if isinstance(e, ast.Name):
        if e.id not in cx.env:
            raise Unsupported(f"unknown name {e.id} in {cx.name}")
        return [], lean_name(e.id), cx.env[e.id]
    if isinstance(e, ast.Constant):
        if e.value is None:
            return [], "PyVal.none", "pyval"
        if isinstance(e.value, bool):
            return [], ("true" if e.value else "false"), "bool"
        if isinstance(e.value, int):
            return [], f"({e.value} : Int)", "int"
        if isinstance(e.value, str):
            return [], lit_str(e.value), "str"
        raise Unsupported(f"constant {e.value!r}")
    if isinstance(e, ast.UnaryOp) and isinstance(e.op, ast.USub):
        b, t, ty = expr(e.operand, cx)
        return b, f"(-{t})", ty
    if isinstance(e, ast.List):
        parts = [expr(x, cx) for x in e.elts]
        if all(p[2] == "str" for p in parts):
            return [], "[" + ", ".join(p[1] for p in parts) + "]", "strlist"
        if all(p[2] == "int" for p in parts):
            return [], "[" + ", ".join(p[1] for p in parts) + "]", "list"
        raise Unsupported("heterogeneous list literal")
    if isinstance(e, ast.Call):
        f = e.func
        if isinstance(f, ast.Name) and f.id == "sorted" and len(e.args) == 1:
            b, t, ty = expr(e.args[0], cx)
            if ty != "list":
                raise Unsupported("sorted() of non-list")
            return b, f"(pySorted {t})", "list"
        if isinstance(f, ast.Name) and f.id == "len" and len(e.args) == 1:
            b, t, ty = expr(e.args[0], cx)
            if ty != "list":
                raise Unsupported("len() of non-list")
            return b, f"(({t}).length : Int)", "int"
        if (isinstance(f, ast.Attribute) and f.attr == "searchsorted" and isinstance(f.value, ast.Name)
                and f.value.id == "np" and len(e.args) == 2):
            side = "left"
            for kw in e.keywords:
                if kw.arg == "side" and isinstance(kw.value, ast.Constant):
                    side = kw.value.value
                else:
                    raise Unsupported("searchsorted keyword")
            if side not in ("left", "right"):
                raise Unsupported("searchsorted side")
            b1, t1, ty1 = expr(e.args[0], cx)
            b2, t2, ty2 = expr(e.args[1], cx)
            if ty1 != "list":
                raise Unsupported("searchsorted on non-list")
            n = cx.fresh("ss")
            fn = "searchsortedLeft" if side == "left" else "searchsortedRight"
            return b1 + b2 + [(n, f"{fn} {t1} (toPy {t2})")], n, "nat"
        if isinstance(f, ast.Name) and lean_name(f.id) in cx.known:
            callee = cx.known[lean_name(f.id)]
            if e.keywords:
                raise Unsupported("keyword call")
            binds, args = [], []
            for (pn, pt), a in zip(callee["params"], e.args):
                if isinstance(a, ast.Name) and cx.env.get(a.id) != pt and (a.id, pt) in cx.duals:
                    args.append(cx.duals[(a.id, pt)])
                    continue
                b, t, ty = expr(a, cx)
                if ty != pt:
                    raise Unsupported(f"call {f.id}: argument type {ty} != {pt}")
                binds += b
                args.append(t)
            n = cx.fresh("r")
            return binds + [(n, f"{lean_name(f.id)} " + " ".join(args))], n, callee["ret"]
        raise Unsupported(f"call {ast.dump(f)[:60]}")
    if isinstance(e, ast.Subscript):
        b, t, ty = expr(e.value, cx)
        if ty != "list":
            raise Unsupported("subscript of non-list")
        bi, ti, tyi = expr(e.slice, cx)
        if tyi != "int":
            raise Unsupported("non-int index")
        n = cx.fresh("ix")
        return b + bi + [(n, f"pyIndex {t} {ti}")], n, "pyval"
    if isinstance(e, ast.BinOp):
        ops = {ast.Add: "+", ast.Sub: "-", ast.Mult: "*", ast.FloorDiv: "/", ast.Mod: "%"}
        if type(e.op) in ops:
            b1, t1, ty1 = expr(e.left, cx)
            b2, t2, ty2 = expr(e.right, cx)
            if ty1 == ty2 == "int":
                return b1 + b2, f"({t1} {ops[type(e.op)]} {t2})", "int"
        raise Unsupported("binop")
    raise Unsupported(f"expression {type(e).__name__}")


def cond(e, cx):
    """-> Lean term of type `Py Bool`"""
    if isinstance(e, ast.BoolOp):
        terms = [cond(v, cx) for v in e.values]
        fn = "pyAnd" if isinstance(e.op, ast.And) else "pyOr"
        out = terms[-1]
        for t in reversed(terms[:-1]):
            out = f"({fn} {t} {out})"
        return out
    if isinstance(e, ast.UnaryOp) and isinstance(e.op, ast.Not):
        return f"(pyNot {cond(e.operand, cx)})"
    if isinstance(e, ast.Constant) and isinstance(e.value, bool):
        return f"(Except.ok {'true' if e.value else 'false'})"
    if isinstance(e, ast.Call) and isinstance(e.func, ast.Name) and e.func.id == "isinstance":
        # model values are scalars: `isinstance(v, np.ndarray)` is false in the model (abstraction)
        if (len(e.args) == 2 and isinstance(e.args[1], ast.Attribute) and e.args[1].attr == "ndarray"):
            cx.notes.append("isinstance(_, np.ndarray) := false (arrays are unwrapped before the model)")
            return "(Except.ok false)"
        raise Unsupported("isinstance")
    if isinstance(e, ast.Compare):
        if len(e.ops) != 1:
            raise Unsupported("chained comparison")
        op, l, r = e.ops[0], e.left, e.comparators[0]
        if isinstance(op, (ast.Is, ast.IsNot)):
            if not (isinstance(r, ast.Constant) and r.value is None):
                raise Unsupported("is / is not with non-None")
            b, t, ty = expr(l, cx)
            fn = "pyIsNone" if isinstance(op, ast.Is) else "pyIsNotNone"
            return wrap(b, f"{fn} (toPy {t})")
        b1, t1, ty1 = expr(l, cx)
        b2, t2, ty2 = expr(r, cx)
        if isinstance(op, (ast.In, ast.NotIn)):
            neg = isinstance(op, ast.NotIn)
            if ty2 == "strlist" and ty1 == "str":
                core = f"Except.ok ({'!' if neg else ''}({t2}).contains {t1})"
            elif ty2 == "list":
                core = f"{'pyNotIn' if neg else 'pyIn'} (toPy {t1}) {t2}"
            else:
                raise Unsupported("in on unsupported types")
            return wrap(b1 + b2, core)
        if ty1 == "str" and ty2 == "str":
            if isinstance(op, ast.Eq):
                return wrap(b1 + b2, f"Except.ok ({t1} == {t2})")
            if isinstance(op, ast.NotEq):
                return wrap(b1 + b2, f"Except.ok ({t1} != {t2})")
            raise Unsupported("string ordering")
        fns = {ast.Lt: "pyLt", ast.LtE: "pyLe", ast.Gt: "pyGt", ast.GtE: "pyGe", ast.Eq: "pyEq", ast.NotEq: "pyNe"}
        if type(op) not in fns:
            raise Unsupported("comparison op")
        if ty1 == "nat" and ty2 == "nat" and isinstance(op, ast.Eq):
            return wrap(b1 + b2, f"Except.ok ({t1} == {t2})")
        ok = {"int", "opt", "pyval", "nat"}
        if ty1 not in ok or ty2 not in ok:
            raise Unsupported(f"comparison of {ty1} and {ty2}")
        return wrap(b1 + b2, f"{fns[type(op)]} (toPy {t1}) (toPy {t2})")
    if isinstance(e, ast.Name) and cx.env.get(e.id) == "bool":
        return f"(Except.ok {lean_name(e.id)})"
    raise Unsupported(f"condition {type(e).__name__}")


def mentions_ndarray(e):
    return any(isinstance(n, ast.Attribute) and n.attr == "ndarray" for n in ast.walk(e))


def block(stmts, k, cx):
    """translate statement list with continuation term k (or None) -> Lean term : Py R"""
    if not stmts:
        if k is None:
            raise Unsupported(f"{cx.name}: control reaches end of function without return")
        return k
    s, rest = stmts[0], stmts[1:]
    if isinstance(s, ast.Expr) and isinstance(s.value, ast.Constant) and isinstance(s.value.value, str):
        return block(rest, k, cx)      # docstring
    if isinstance(s, ast.Return):
        v = s.value
        if v is None:
            raise Unsupported("bare return")
        if isinstance(v, (ast.Compare, ast.BoolOp)) or (isinstance(v, ast.UnaryOp) and isinstance(v.op, ast.Not)) \
                or (isinstance(v, ast.Constant) and isinstance(v.value, bool)):
            if cx.ret != "bool":
                raise Unsupported("boolean return in non-bool function")
            return cond(v, cx)
        b, t, ty = expr(v, cx)
        if ty != cx.ret:
            if cx.ret == "opt" and ty == "pyval" and t == "PyVal.none":
                t = "(none : Option Int)"
            else:
                raise Unsupported(f"{cx.name}: return type {ty} != {cx.ret}")
        # tail call: `return f(...)` -> the call itself
        if b and b[-1][0] == t:
            return wrap(b[:-1], b[-1][1])
        return wrap(b, f"Except.ok {t}")
    if isinstance(s, ast.Assign):
        if len(s.targets) != 1 or not isinstance(s.targets[0], ast.Name):
            raise Unsupported("assignment target")
        name = s.targets[0].id
        b, t, ty = expr(s.value, cx)
        old = cx.env.get(name)
        cx.env[name] = ty
        body = block(rest, k, cx)
        cx.env[name] = ty
        if b and b[-1][0] == t:
            # x = f(...)  ->  f ... >>= fun x => rest
            return wrap(b[:-1], f"({b[-1][1]} >>= fun {lean_name(name)} => {body})")
        return wrap(b, f"(let {lean_name(name)} := {t}; {body})")
    if isinstance(s, ast.If):
        kk = block(rest, k, cx) if (rest or k is not None) else None
        if mentions_ndarray(s.test):
            cx.notes.append(f"{cx.name}: branch guarded by isinstance(_, np.ndarray) is dead in the model")
            if kk is None:
                raise Unsupported("ndarray guard at end of function")
            return kk
        c = cond(s.test, cx)
        env0 = dict(cx.env)
        t = block(s.body, kk, cx)
        cx.env = dict(env0)
        e = block(s.orelse, kk, cx) if s.orelse else kk
        cx.env = env0
        if e is None:
            raise Unsupported(f"{cx.name}: if without else at end of function")
        return f"(pyIf {c}\n  {t}\n  {e})"
    if isinstance(s, ast.Pass):
        return block(rest, k, cx)
    raise Unsupported(f"statement {type(s).__name__} in {cx.name}")


def translate_function(fn_ast, params, ret, known, duals):
    cx = FnCtx(lean_name(fn_ast.name), params, ret, known, duals)
    declared = [a.arg for a in fn_ast.args.args]
    want = [p for p, _ in params if (p, ) and p in declared]
    if declared != [p for p, _ in params if p in declared] or len(want) != len(declared):
        raise Unsupported(f"{fn_ast.name}: parameter list changed: {declared}")
    body = block(fn_ast.body, None, cx)
    sig = " ".join(f"({lean_name(p)} : {LEAN_T[t]})" for p, t in params)
    src = f"def {cx.name} {sig} : Py {LEAN_T[ret]} :=\n  {body}\n"
    return src, cx.notes


# --------------------------------------------------------------------------- Gen.Filter

FILTER_FUNCS = [
    ("_handle_np_array", [("v", "opt")], "opt", {}),
    ("filter_in", [("values", "list"), ("vmin", "opt"), ("vmax", "opt")], "bool", {}),
    ("filter_not_in", [("values", "list"), ("vmin", "opt"), ("vmax", "opt")], "bool", {}),
    # `val` is a scalar for the comparison operators and a list for in / not in: two parameters
    ("filter_val", [("op", "str"), ("val", "int"), ("vals", "list"), ("vmin", "opt"), ("vmax", "opt")], "bool",
     {("val", "list"): "vals"}),
]


def find_func(tree, name):
    for n in tree.body:
        if isinstance(n, ast.FunctionDef) and n.name == name:
            return n
    raise Unsupported(f"function {name} not found")


@register("Filter")
def gen_filter(repo):
    src = open(os.path.join(repo, "fastparquet", "api.py")).read()
    tree = ast.parse(src)
    known, out, notes = {}, [], []
    for name, params, ret, duals in FILTER_FUNCS:
        fn = find_func(tree, name)
        # parameters of the python function (the dual `vals` is ours)
        py_params = [(p, t) for p, t in params if not any(p == d for d in duals.values())]
        declared = [a.arg for a in fn.args.args]
        if declared != [p for p, _ in py_params]:
            raise Unsupported(f"{name}: parameters are now {declared}")
        cx_src, n = translate_function_with(fn, params, ret, known, duals)
        out.append(f"/-- translated from `fastparquet/api.py::{name}` (line {fn.lineno}) -/\n" + cx_src)
        notes += n
        known[lean_name(name)] = {"params": params, "ret": ret}
    header = ("-- REGENERATED on every run by tools/translate_py.py from fastparquet/api.py — do not edit\n"
              "import PqV.Prelude.Py\nnamespace PqV.Gen.Filter\nopen PqV.Py\n\n")
    note_txt = "".join(f"-- note: {x}\n" for x in sorted(set(notes)))
    return header + note_txt + "\n" + "\n".join(out) + "\nend PqV.Gen.Filter\n"


def translate_function_with(fn, params, ret, known, duals):
    cx = FnCtx(lean_name(fn.name), params, ret, known, duals)
    body = block(fn.body, None, cx)
    sig = " ".join(f"({lean_name(p)} : {LEAN_T[t]})" for p, t in params)
    return f"def {cx.name} {sig} : Py {LEAN_T[ret]} :=\n  {body}\n", cx.notes
