#!/bin/sh
# usage (under `vp run --with-repo`): tools/seeded_in_snapshot.sh [--seed N] ID...   — runs the registered check against seeded changes in
# the run's own snapshots of /verif and /repo, so that /repo and /verif stay free meanwhile.  Prints one line per change.
R=${VP_RUN_REPO:?needs vp run --with-repo}
cp /repo/fastparquet/*.c /repo/fastparquet/*.so /repo/fastparquet/_version.py $R/fastparquet/ 2>/dev/null
export VERIF_REPO=$R
./check --setup > setup.log 2>&1 || { echo "setup failed"; tail -5 setup.log; exit 2; }
exec /venv/bin/python tools/rerun_seeded.py "$@"
