#!/usr/bin/env python3
"""Re-run the registered check against seeded changes already stored under /verif/seeded/<id>/ (apply to /repo, run,
undo) and refresh meta.json's `detection`.   usage: rerun_seeded.py [--seed N] [ID ...]    (default: all)
/repo must be clean and otherwise idle while this runs."""
import json, os, subprocess, sys
VERIF = os.path.dirname(os.path.dirname(os.path.abspath(__file__)))
args = sys.argv[1:]
seed = "0"
if "--seed" in args:
    i = args.index("--seed"); seed = args[i + 1]; del args[i:i + 2]
ids = args or sorted(os.listdir(os.path.join(VERIF, "seeded")))
if subprocess.run(["git", "-C", os.environ.get("VERIF_REPO", "/repo"), "status", "--porcelain", "--untracked-files=no"], capture_output=True, text=True).stdout.strip():
    sys.exit("/repo working tree is not clean")
missed = []
for sid in ids:
    out = os.path.join(VERIF, "seeded", sid)
    meta_p = os.path.join(out, "meta.json")
    if not os.path.exists(meta_p):
        continue
    meta = json.load(open(meta_p))
    cmd = (meta.get("detection") or {}).get("check") or f"./check {meta['property']} --tier quick"
    check_prop = cmd.split()[1]
    r = subprocess.run(["git", "-C", os.environ.get("VERIF_REPO", "/repo"), "apply", os.path.join(out, "patch.diff")], capture_output=True, text=True)
    if r.returncode != 0:
        meta["detection"] = {"error": "patch does not apply to the current tree: " + r.stderr[:200]}
        missed.append(sid)
    else:
        try:
            c = subprocess.run([os.path.join(VERIF, "check"), check_prop, "--tier", "quick"], cwd=VERIF, capture_output=True, text=True,
                               timeout=3000, env={**os.environ, "VERIF_SEED": seed})
            lines = [l[:300] for l in c.stdout.split("\n") if l.startswith("VIOLATION") or l.startswith("KNOWN-FINDING")]
            viol = [l for l in lines if l.startswith("VIOLATION")]
            meta["detection"] = {"check": f"./check {check_prop} --tier quick", "seed": int(seed), "exit": c.returncode, "detected": c.returncode == 1,
                                 "with_failing_input": any(not l.rstrip().endswith("no-failing-input-found") for l in viol),
                                 "lines": lines[:6]}
            if c.returncode != 1:
                missed.append(sid)
        finally:
            subprocess.run(["git", "-C", os.environ.get("VERIF_REPO", "/repo"), "checkout", "--", "."])
            subprocess.run(["git", "-C", VERIF, "checkout", "--", "evidence"])
    d = meta["detection"]
    print(sid, d.get("exit"), "detected" if d.get("detected") else "MISSED", "input" if d.get("with_failing_input") else "no-input", flush=True)
    json.dump(meta, open(meta_p, "w"), indent=1)
print("missed:", missed)
