"""Run every translator (regenerated models, DESIGN §3.2) and write PqV/Gen/*.lean.

Each translator returns Lean source text; files are written only when content changed, so an
unchanged source costs no rebuild.  A translator that cannot handle the current source raises;
the Gen file is then replaced by a stub containing `#eval (panic! ...)`-free *compile error*
so that every theorem depending on it is reported as a broken proof obligation."""
import os, traceback

TRANSLATORS = []   # (gen module name, callable(repo) -> lean text)


def register(name):
    def deco(f):
        TRANSLATORS.append((name, f))
        return f
    return deco


def _write_if_changed(path, text):
    old = open(path).read() if os.path.exists(path) else None
    if old != text:
        with open(path, "w") as f:
            f.write(text)
        return True
    return False


def run_all(repo, gen_dir, report=None):
    # import translator modules (they self-register)
    from tools import translate_py, translate_specs, translate_idl, translate_callsites  # noqa: F401
    os.makedirs(gen_dir, exist_ok=True)
    status = {}
    for name, fn in TRANSLATORS:
        path = os.path.join(gen_dir, name + ".lean")
        try:
            text = fn(repo)
            changed = _write_if_changed(path, text)
            status[name] = {"status": "ok", "changed": changed}
        except Exception as e:
            msg = "".join(traceback.format_exception_only(type(e), e)).strip().replace('"', "'")
            stub = (f"-- translator for {name} FAILED on the current source: {msg[:300]}\n"
                    f"#eval (show Nat from \"translator {name} failed\")\n")
            _write_if_changed(path, stub)
            status[name] = {"status": "failed: " + msg[:300], "changed": True}
    return status
